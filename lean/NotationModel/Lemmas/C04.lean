/-
C04 - helper lemmas: the map-building loops of `pkix.ParseDistinguishedName` and the
identity loop of `verifyX509TrustedIdentities` computed in closed form; the model `run` equals
the declarative `spec`.
-/
import NotationModel.Model.C04
set_option linter.unusedSimpArgs false
set_option linter.unusedVariables false

namespace NotationModel.C04

/-! ### association lists -/

/-- the attribute types of a map, in insertion order -/
def keys (m : List Attr) : List Text := m.map Prod.fst

@[simp] theorem keys_nil : keys [] = [] := rfl
@[simp] theorem keys_cons (a : Attr) (m : List Attr) : keys (a :: m) = a.1 :: keys m := rfl
@[simp] theorem keys_append (m l : List Attr) : keys (m ++ l) = keys m ++ keys l := by
  simp [keys]

theorem mem_keys {k : Text} {m : List Attr} : k ∈ keys m ↔ ∃ v, (k, v) ∈ m := by
  simp only [keys, List.mem_map]
  constructor
  · rintro ⟨⟨k', v⟩, h, rfl⟩; exact ⟨v, h⟩
  · rintro ⟨v, h⟩; exact ⟨(k, v), h, rfl⟩

theorem nodupKeys_iff (m : List Attr) : nodupKeys m = true ↔ (keys m).Nodup := by
  induction m with
  | nil => simp [nodupKeys]
  | cons a r ih =>
    simp only [nodupKeys, keys_cons, List.nodup_cons, Bool.and_eq_true, ih, Bool.not_eq_true',
      List.any_eq_false, beq_iff_eq]
    constructor
    · rintro ⟨h1, h2⟩
      refine ⟨?_, h2⟩
      intro hk
      obtain ⟨v, hv⟩ := mem_keys.1 hk
      exact h1 _ hv rfl
    · rintro ⟨h1, h2⟩
      refine ⟨?_, h2⟩
      intro b hb hbe
      apply h1
      rw [← hbe]
      exact mem_keys.2 ⟨b.2, hb⟩

theorem lookup_eq_none {k : Text} {m : List Attr} : lookup k m = none ↔ k ∉ keys m := by
  induction m with
  | nil => simp [lookup]
  | cons a r ih =>
    obtain ⟨k', v⟩ := a
    simp only [lookup, keys_cons, List.mem_cons, not_or]
    by_cases h : k' = k
    · simp [h]
    · simp only [h, if_false, ih]
      constructor
      · intro h2; exact ⟨fun e => h e.symm, h2⟩
      · intro h2; exact h2.2

theorem lookup_mem {k v : Text} {m : List Attr} (h : lookup k m = some v) : (k, v) ∈ m := by
  induction m with
  | nil => simp [lookup] at h
  | cons a r ih =>
    obtain ⟨k', v'⟩ := a
    simp only [lookup] at h
    by_cases hk : k' = k
    · simp only [hk, if_true, Option.some.injEq] at h
      simp [hk, h]
    · simp only [hk, if_false] at h
      exact List.mem_cons_of_mem _ (ih h)

theorem lookup_of_mem {k v : Text} {m : List Attr} (hn : (keys m).Nodup) (h : (k, v) ∈ m) :
    lookup k m = some v := by
  induction m with
  | nil => simp at h
  | cons a r ih =>
    obtain ⟨k', v'⟩ := a
    simp only [keys_cons, List.nodup_cons] at hn
    simp only [lookup]
    rcases List.mem_cons.1 h with h | h
    · simp only [Prod.mk.injEq] at h
      simp [h.1, h.2]
    · have : k' ≠ k := by
        intro e
        apply hn.1
        rw [e]
        exact mem_keys.2 ⟨v, h⟩
      simp only [this, if_false]
      exact ih hn.2 h

/-- reading a map with a test on the value = searching the list, when keys are unique -/
theorem lookup_any (m : List Attr) (hn : (keys m).Nodup) (k : Text) (p : Text → Bool) :
    present p (lookup k m) = m.any (fun a => a.1 == k && p a.2) := by
  cases h : lookup k m with
  | none =>
    simp only [present]
    symm
    rw [List.any_eq_false]
    intro a ha
    have hk := lookup_eq_none.1 h
    have : a.1 ≠ k := by
      intro e
      apply hk
      rw [← e]
      exact mem_keys.2 ⟨a.2, ha⟩
    simp [this]
  | some v =>
    simp only [present]
    have hmem := lookup_mem h
    cases hp : p v with
    | true =>
      symm
      rw [List.any_eq_true]
      exact ⟨(k, v), hmem, by simp [hp]⟩
    | false =>
      symm
      rw [List.any_eq_false]
      intro a ha
      by_cases e : a.1 = k
      · have : lookup k m = some a.2 := lookup_of_mem hn (by rw [← e]; exact ha)
        rw [h] at this
        simp only [Option.some.injEq] at this
        simp [e, ← this, hp]
      · simp [e]

/-! ### pkix.ParseDistinguishedName in closed form -/

theorem norm_norm (h : aliasTo ≠ aliasFrom) (a : Attr) : norm (norm a) = norm a := by
  unfold norm
  by_cases e : a.1 = aliasFrom
  · simp [e, h]
  · simp [e]

theorem flat_nil : flat [] = [] := rfl

theorem flat_cons (r : List Attr) (rs : List (List Attr)) : flat (r :: rs) = r.map norm ++ flat rs := by
  simp [flat]

theorem mem_flat {a : Attr} {rs : List (List Attr)} :
    a ∈ flat rs ↔ ∃ r ∈ rs, ∃ b ∈ r, norm b = a := by
  simp only [flat, List.mem_map, List.mem_flatten]
  constructor
  · rintro ⟨b, ⟨r, hr, hb⟩, e⟩; exact ⟨r, hr, b, hb, e⟩
  · rintro ⟨r, hr, b, hb, e⟩; exact ⟨b, ⟨r, hr, hb⟩, e⟩

theorem addAttrs_iff (as : List Attr) : ∀ (m m' : AttrMap), (keys m).Nodup →
    (addAttrs as m = some m' ↔ m' = m ++ as.map norm ∧ (keys (m ++ as.map norm)).Nodup) := by
  induction as with
  | nil =>
    intro m m' hm
    simp only [addAttrs, List.map_nil, List.append_nil, Option.some.injEq]
    constructor
    · intro h; exact ⟨h.symm, hm⟩
    · intro h; exact h.1.symm
  | cons a as ih =>
    intro m m' hm
    simp only [addAttrs]
    cases h : lookup (norm a).1 m with
    | none =>
      simp only
      have hk := lookup_eq_none.1 h
      have hm' : (keys (m ++ [norm a])).Nodup := by
        simp only [keys_append, keys_cons, keys_nil]
        rw [List.nodup_append]
        refine ⟨hm, by simp, ?_⟩
        intro x hx y hy
        simp only [List.mem_singleton] at hy
        intro e
        apply hk
        rw [← hy, ← e]
        exact hx
      rw [ih (m ++ [norm a]) m' hm']
      simp [List.append_assoc]
    | some v =>
      simp only
      constructor
      · intro h'; cases h'
      · rintro ⟨_, hnd⟩
        exfalso
        have hmem := lookup_mem h
        simp only [List.map_cons, keys_append, keys_cons] at hnd
        rw [List.nodup_append] at hnd
        exact hnd.2.2 _ (mem_keys.2 ⟨v, hmem⟩) _ (List.mem_cons_self) rfl

theorem addRDNs_iff (rs : List (List Attr)) : ∀ (m m' : AttrMap), (keys m).Nodup →
    (addRDNs rs m = some m' ↔
      (∀ r ∈ rs, r.length ≤ maxAttrs) ∧ m' = m ++ flat rs ∧ (keys (m ++ flat rs)).Nodup) := by
  induction rs with
  | nil =>
    intro m m' hm
    simp only [addRDNs, flat_nil, List.append_nil, Option.some.injEq]
    constructor
    · intro h; exact ⟨by simp, h.symm, hm⟩
    · intro h; exact h.2.1.symm
  | cons r rs ih =>
    intro m m' hm
    simp only [addRDNs]
    by_cases hl : r.length > maxAttrs
    · simp only [hl, if_true]
      constructor
      · intro h; cases h
      · rintro ⟨h, _⟩
        have := h r (List.mem_cons_self)
        omega
    · simp only [hl, if_false]
      have hl' : r.length ≤ maxAttrs := by omega
      cases h : addAttrs r m with
      | none =>
        simp only
        constructor
        · intro h'; cases h'
        · rintro ⟨_, _, hnd⟩
          exfalso
          have hpre : (keys (m ++ r.map norm)).Nodup := by
            rw [flat_cons, ← List.append_assoc, keys_append] at hnd
            exact (List.nodup_append.1 hnd).1
          have := (addAttrs_iff r m (m ++ r.map norm) hm).2 ⟨rfl, hpre⟩
          rw [h] at this
          cases this
      | some m1 =>
        simp only
        obtain ⟨e1, hnd1⟩ := (addAttrs_iff r m m1 hm).1 h
        subst e1
        rw [ih _ m' hnd1, flat_cons, List.append_assoc]
        constructor
        · rintro ⟨h1, h2, h3⟩
          exact ⟨fun x hx => by
            rcases List.mem_cons.1 hx with e | e
            · rw [e]; exact hl'
            · exact h1 x e, h2, h3⟩
        · rintro ⟨h1, h2, h3⟩
          exact ⟨fun x hx => h1 x (List.mem_cons_of_mem _ hx), h2, h3⟩

theorem mandatoryPresent_eq (m : AttrMap) (hn : (keys m).Nodup) :
    mandatoryPresent m = hasMandatory m := by
  unfold mandatoryPresent hasMandatory
  congr 1
  funext f
  exact lookup_any m hn f (fun v => !v.isEmpty)

/-- `pkix.ParseDistinguishedName` succeeds exactly on the interpretable names, and then
returns the flat attribute list -/
theorem parseDN_eq (text : Text) (rdns : Option (List (List Attr))) :
    parseDN text rdns = if validDN text rdns then some (attrsOf rdns) else none := by
  unfold parseDN validDN
  by_cases hi : hasInfix unsupported text = true
  · simp [hi]
  · simp only [hi, if_false, Bool.not_false, Bool.true_and]
    cases rdns with
    | none => simp
    | some rs =>
      simp only [attrsOf]
      have hnil : (keys ([] : AttrMap)).Nodup := by simp
      cases h : addRDNs rs [] with
      | none =>
        simp only
        by_cases hv : (rs.all (fun r => decide (r.length ≤ maxAttrs)) && nodupKeys (flat rs) && hasMandatory (flat rs)) = true
        · exfalso
          simp only [Bool.and_eq_true, List.all_eq_true, decide_eq_true_eq] at hv
          have := (addRDNs_iff rs [] (flat rs) hnil).2
            ⟨hv.1.1, by simp, by simpa using (nodupKeys_iff _).1 hv.1.2⟩
          rw [h] at this
          cases this
        · simp [hv]
      | some m =>
        simp only
        obtain ⟨h1, h2, h3⟩ := (addRDNs_iff rs [] m hnil).1 h
        simp only [List.nil_append] at h2 h3
        subst h2
        have hall : rs.all (fun r => decide (r.length ≤ maxAttrs)) = true := by
          simp only [List.all_eq_true, decide_eq_true_eq]; exact h1
        have hnd : nodupKeys (flat rs) = true := (nodupKeys_iff _).2 h3
        simp [mandatoryPresent_eq _ h3, hall, hnd]

theorem validDN_keys_nodup {text : Text} {rs : List (List Attr)} (h : validDN text (some rs) = true) :
    (keys (flat rs)).Nodup := by
  unfold validDN at h
  simp only [Bool.and_eq_true] at h
  exact (nodupKeys_iff _).1 h.2.1.2

/-- `pkix.IsSubsetDN` = attribute-wise containment, when the container has unique keys -/
theorem isSubset_eq (m l : AttrMap) (hl : (keys l).Nodup) :
    isSubset m l = m.all (fun a => l.contains a) := by
  unfold isSubset
  apply List.all_congr rfl
  intro kv
  rw [lookup_any l hl kv.1 (fun got => got == kv.2)]
  rw [Bool.eq_iff_iff]
  simp only [List.any_eq_true, Bool.and_eq_true, beq_iff_eq, List.contains_iff_mem]
  constructor
  · rintro ⟨a, ha, e1, e2⟩
    have : a = kv := Prod.ext e1 e2
    rw [← this]; exact ha
  · intro h; exact ⟨kv, h, rfl, rfl⟩

/-! ### the identity loop in closed form -/

theorem usable_of_x509 {id : Identity} {val : Text} (hc : cut id.raw = some (x509Subject, val)) :
    usable id = (!val.isEmpty && validDN val id.rdns) := by
  simp [usable, x509Value, hc]

theorem collect_eq (ids : List Identity) : ∀ acc : List AttrMap,
    collect ids acc =
      if ids.any malformed then none
      else some (acc ++ (ids.filter usable).map (fun id => attrsOf id.rdns)) := by
  induction ids with
  | nil => intro acc; simp [collect]
  | cons id rest ih =>
    intro acc
    simp only [collect, List.any_cons, List.filter_cons]
    cases hc : cut id.raw with
    | none => simp [malformed, hc]
    | some pv =>
      obtain ⟨pfx, val⟩ := pv
      simp only
      by_cases hp : pfx = x509Subject
      · subst hp
        simp only [if_true]
        have hu := usable_of_x509 hc
        by_cases he : val.isEmpty = true
        · simp [he, malformed, hc]
        · simp only [he, if_false]
          rw [parseDN_eq]
          by_cases hv : validDN val id.rdns = true
          · have hm : malformed id = false := by simp [malformed, hc, he, hv]
            have hu' : usable id = true := by rw [hu]; simp [he, hv]
            simp only [hv, if_true, hm, Bool.false_or, hu']
            rw [ih]
            simp [List.append_assoc]
          · have hm : malformed id = true := by simp [malformed, hc, he, hv]
            simp [hv, hm]
      · have hm : malformed id = false := by simp [malformed, hc, hp]
        have hu : usable id = false := by simp [usable, x509Value, hc, hp]
        simp only [hp, if_false, hm, Bool.false_or, hu]
        rw [ih]
        simp

theorem usable_eq_isX509_of_not_malformed {id : Identity} (h : malformed id = false) :
    usable id = isX509 id := by
  unfold usable isX509 x509Value
  unfold malformed at h
  cases hc : cut id.raw with
  | none => simp [hc] at h
  | some pv =>
    obtain ⟨pfx, val⟩ := pv
    simp only [hc] at h ⊢
    by_cases hp : pfx = x509Subject
    · simp only [hp, beq_self_eq_true, Bool.true_and, Bool.or_eq_false_iff, Bool.not_eq_false'] at h
      simp [hp, h.1, h.2]
    · simp [hp]

theorem filter_usable_eq_nil_iff (ids : List Identity) (h : ids.any malformed = false) :
    ids.filter usable = [] ↔ ids.any isX509 = false := by
  rw [List.filter_eq_nil_iff, List.any_eq_false]
  rw [List.any_eq_false] at h
  constructor
  · intro hh id hid
    have := hh id hid
    rw [usable_eq_isX509_of_not_malformed (by simpa using h id hid)] at this
    exact this
  · intro hh id hid
    rw [usable_eq_isX509_of_not_malformed (by simpa using h id hid)]
    exact hh id hid

/-- the specification as a function of the identity list and the chain -/
def specOf (ids : List Identity) (chain : List DN) : Bool :=
  spec (ociInput ids chain [] none)

theorem spec_eq_specOf (i : Input) : spec i = specOf i.identities i.chain := by
  simp only [specOf, spec, anyWild, anyMalformed, anyX509, leafValid, anyWithinLeaf, leafAttrs, leafOf, identities_ociInput, chain_ociInput]

/-- **the model computes the specification** (uses the fact `leafIndex = 0`) -/
theorem verifyIdentities_eq (hleaf : leafIndex = 0) (ids : List Identity) (chain : List DN) :
    verifyIdentities ids chain = specOf ids chain := by
  unfold verifyIdentities specOf spec
  simp only [anyWild, anyMalformed, anyX509, leafValid, anyWithinLeaf, leafAttrs, leafOf, identities_ociInput, chain_ociInput]
  have hw : (ids.any fun id => id.raw == wildcard) = ids.any isWild := rfl
  rw [hw]
  by_cases hwild : ids.any isWild = true
  · simp [hwild]
  · simp only [hwild, if_false, Bool.false_or]
    rw [collect_eq]
    by_cases hm : ids.any malformed = true
    · simp [hm]
    · have hm' : ids.any malformed = false := by simpa using hm
      simp only [hm', Bool.false_eq_true, if_false, Bool.not_false, Bool.true_and, List.nil_append]
      have hnil := filter_usable_eq_nil_iff ids hm'
      by_cases hx : ids.any isX509 = true
      · have hne : ids.filter usable ≠ [] := by
          intro e; rw [hnil.1 e] at hx; cases hx
        have hne' : (ids.filter usable).map (fun id => attrsOf id.rdns) ≠ [] := by
          simpa using hne
        rw [hleaf, ← List.head?_eq_getElem?]
        generalize hms : (ids.filter usable).map (fun id => attrsOf id.rdns) = ms at hne' ⊢
        cases ms with
        | nil => exact absurd rfl hne'
        | cons m0 mr =>
          simp only [hx, Bool.true_and]
          cases hh : chain.head? with
          | none => simp
          | some leaf =>
            simp only
            rw [parseDN_eq]
            by_cases hv : validDN leaf.text leaf.rdns = true
            · simp only [hv, if_true, Bool.true_and]
              rw [← hms, List.any_map, List.any_filter]
              apply List.any_congr rfl
              intro id
              simp only [Function.comp, within]
              cases hu : usable id with
              | false => simp
              | true =>
                simp only [Bool.true_and]
                cases hr : leaf.rdns with
                | none => simp [validDN, hr] at hv
                | some ls =>
                  rw [hr] at hv
                  exact isSubset_eq _ _ (validDN_keys_nodup hv)
            · simp [hv]
      · have hx' : ids.any isX509 = false := by simpa using hx
        rw [hnil.2 hx']
        simp [hx']

end NotationModel.C04

/-
C20 - lemmas about sorted insertion / lookup, the directory walk, and the reduction of the
stateful model (`runOps` over plugin roots) to a function of observables only (`specStep`).
-/
import NotationModel.Lemmas.C20Order
set_option linter.unusedSimpArgs false
set_option linter.unusedVariables false

namespace NotationModel.C20

/-! ### sorted insertion, deletion, lookup -/

section keyed
variable {α : Type} (key : α → Text)

/-- strictly ascending keys (so: one element per key) -/
def Sorted (l : List α) : Prop := l.Pairwise (fun a b => cmpText (key a) (key b) = .lt)

theorem mem_putBy {x y : α} {l : List α} (h : y ∈ putBy key x l) : y = x ∨ y ∈ l := by
  induction l with
  | nil => simp [putBy] at h; exact Or.inl h
  | cons z r ih =>
    simp only [putBy] at h
    cases hc : cmpText (key x) (key z) <;> rw [hc] at h <;> simp at h
    · rcases h with h | h | h <;> simp [h]
    · rcases h with h | h <;> simp [h]
    · rcases h with h | h
      · simp [h]
      · rcases ih h with h | h <;> simp [h]

theorem mem_putBy_self (x : α) (l : List α) : x ∈ putBy key x l := by
  induction l with
  | nil => simp [putBy]
  | cons z r ih =>
    simp only [putBy]
    cases hc : cmpText (key x) (key z) <;> simp [ih]

theorem sorted_putBy (x : α) {l : List α} (h : Sorted key l) : Sorted key (putBy key x l) := by
  induction l with
  | nil => simp [putBy, Sorted]
  | cons z r ih =>
    have hz := List.pairwise_cons.1 h
    simp only [putBy]
    cases hc : cmpText (key x) (key z)
    · -- x before z
      refine List.pairwise_cons.2 ⟨?_, h⟩
      intro y hy
      rcases List.mem_cons.1 hy with rfl | hy
      · exact hc
      · exact good_cmpText.trans _ _ _ hc (hz.1 y hy)
    · -- x replaces z
      have e := good_cmpText.eq_imp _ _ hc
      refine List.pairwise_cons.2 ⟨?_, hz.2⟩
      intro y hy; rw [e]; exact hz.1 y hy
    · refine List.pairwise_cons.2 ⟨?_, ih hz.2⟩
      intro y hy
      rcases mem_putBy key hy with rfl | hy
      · exact (good_cmpText.gt_iff _ _).1 hc
      · exact hz.1 y hy

theorem sorted_sortBy (l : List α) : Sorted key (sortBy key l) := by
  induction l with
  | nil => simp [sortBy, Sorted]
  | cons x r ih => exact sorted_putBy key x ih

theorem sorted_delBy (k : Text) {l : List α} (h : Sorted key l) : Sorted key (delBy key k l) :=
  List.Pairwise.filter _ h

theorem mem_sortBy_keys (l : List α) (k : Text) :
    k ∈ (sortBy key l).map key ↔ k ∈ l.map key := by
  induction l with
  | nil => simp [sortBy]
  | cons x r ih =>
    have step : ∀ (m : List α), k ∈ (putBy key x m).map key ↔ (k = key x ∨ k ∈ m.map key) := by
      intro m
      induction m with
      | nil => simp [putBy]
      | cons z m ihm =>
        simp only [putBy]
        cases hc : cmpText (key x) (key z)
        · simp
        · have e := good_cmpText.eq_imp _ _ hc
          simp [e]
        · simp [ihm]
          constructor
          · rintro (h | h | h) <;> simp [h]
          · rintro (h | h | h) <;> simp [h]
    show k ∈ (putBy key x (sortBy key r)).map key ↔ _
    rw [step, ih]; simp

/-- in a sorted list a member is what the lookup of its key finds -/
theorem findBy_of_mem_sorted {l : List α} (h : Sorted key l) {x : α} (hx : x ∈ l) :
    findBy key (key x) l = some x := by
  induction l with
  | nil => cases hx
  | cons z r ih =>
    have hz := List.pairwise_cons.1 h
    rcases List.mem_cons.1 hx with rfl | hx
    · simp [findBy]
    · have hlt := hz.1 x hx
      have hne : (key z == key x) = false := by
        apply beq_eq_false_iff_ne.2
        intro e; rw [e, good_cmpText.refl] at hlt; cases hlt
      simp only [findBy, List.find?_cons, hne]
      exact ih hz.2 hx

theorem findBy_putBy_self (x : α) (l : List α) : findBy key (key x) (putBy key x l) = some x := by
  induction l with
  | nil => simp [putBy, findBy]
  | cons z r ih =>
    simp only [putBy]
    cases hc : cmpText (key x) (key z)
    · simp [findBy]
    · simp [findBy]
    · have hne : (key z == key x) = false := by
        apply beq_eq_false_iff_ne.2
        intro e; rw [e, good_cmpText.refl] at hc; cases hc
      simp only [findBy, List.find?_cons, hne]
      exact ih

theorem findBy_putBy_ne (x : α) (l : List α) {k : Text} (hk : key x ≠ k) :
    findBy key k (putBy key x l) = findBy key k l := by
  have hx : (key x == k) = false := beq_eq_false_iff_ne.2 hk
  induction l with
  | nil => simp [putBy, findBy, hx]
  | cons z r ih =>
    simp only [putBy]
    cases hc : cmpText (key x) (key z)
    · simp [findBy, List.find?_cons, hx]
    · have e := good_cmpText.eq_imp _ _ hc
      have hz : (key z == k) = false := by rw [← e]; exact hx
      simp [findBy, List.find?_cons, hx, hz]
    · simp only [findBy, List.find?_cons]
      cases key z == k
      · exact ih
      · rfl

theorem findBy_delBy_self (k : Text) (l : List α) : findBy key k (delBy key k l) = none := by
  simp [findBy, delBy, List.find?_eq_none]

theorem findBy_delBy_ne (l : List α) {k k' : Text} (hk : k' ≠ k) :
    findBy key k' (delBy key k l) = findBy key k' l := by
  induction l with
  | nil => rfl
  | cons z r ih =>
    by_cases hz : key z = k
    · have h2 : (key z == k') = false := beq_eq_false_iff_ne.2 (by rw [hz]; exact fun e => hk e.symm)
      have h1 : delBy key k (z :: r) = delBy key k r := by simp [delBy, List.filter_cons, hz]
      rw [h1, ih]
      simp [findBy, List.find?_cons, h2]
    · have h1 : delBy key k (z :: r) = z :: delBy key k r := by simp [delBy, List.filter_cons, hz]
      rw [h1]
      simp only [findBy, List.find?_cons]
      cases key z == k'
      · exact ih
      · rfl

theorem findBy_some {l : List α} {k : Text} {x : α} (h : findBy key k l = some x) : x ∈ l ∧ key x = k := by
  have h1 := List.mem_of_find?_eq_some h
  have h2 := List.find?_some h
  exact ⟨h1, by simpa using h2⟩

end keyed

theorem map_putBy {α β : Type} (key : α → Text) (key' : β → Text) (f : α → β)
    (hk : ∀ a, key' (f a) = key a) (x : α) (l : List α) :
    (putBy key x l).map f = putBy key' (f x) (l.map f) := by
  induction l with
  | nil => rfl
  | cons z r ih =>
    simp only [putBy, List.map_cons, hk]
    cases cmpText (key x) (key z) <;> simp [ih]

theorem map_delBy {α β : Type} (key : α → Text) (key' : β → Text) (f : α → β)
    (hk : ∀ a, key' (f a) = key a) (k : Text) (l : List α) :
    (delBy key k l).map f = delBy key' k (l.map f) := by
  induction l with
  | nil => rfl
  | cons z r ih =>
    simp only [delBy, List.filter_cons, List.map_cons, hk] at ih ⊢
    cases key z != k <;> simp [ih]

theorem findBy_map {α β : Type} (key : α → Text) (key' : β → Text) (f : α → β)
    (hk : ∀ a, key' (f a) = key a) (k : Text) (l : List α) :
    findBy key' k (l.map f) = (findBy key k l).map f := by
  induction l with
  | nil => rfl
  | cons z r ih =>
    simp only [findBy, List.map_cons, List.find?_cons, hk] at ih ⊢
    cases key z == k <;> simp [ih]

/-! ### names -/

theorem parseName_some {s n : Text} (h : parseName s = some n) : s = binName n := by
  unfold parseName at h
  by_cases hp : binaryPrefix.isPrefixOf s = true
  · simp only [hp, if_true] at h
    by_cases hr : (List.drop binaryPrefix.length s).isEmpty = true
    · simp [hr] at h
    · simp [hr] at h
      obtain ⟨t, ht⟩ := List.isPrefixOf_iff_prefix.1 hp
      subst ht; subst h; simp [binName]
  · simp [hp] at h

theorem mkLocated_some {f : File} {c : Bool} {loc : Located} (h : mkLocated f c = some loc) :
    loc.exe = { f with exec := f.exec || c } ∧ parseName f.name = some loc.name ∧ loc.chmod = c := by
  unfold mkLocated at h
  cases hp : parseName f.name <;> rw [hp] at h <;> simp at h
  subst h; simp

/-! ### the directory walk is the declarative candidate rule -/

def cands (l : List File) : List File := l.filter isCand
def execs (l : List File) : List File := (l.filter isCand).filter (·.exec)

theorem walk_spec : ∀ (l : List File) (w : Walk),
    walk l w =
      if (execs l).length + (if w.found.isSome then 1 else 0) ≤ 1
      then some ⟨w.found <|> (execs l).head?, w.cands ++ cands l⟩ else none := by
  intro l
  induction l with
  | nil => intro w; simp [walk, execs, cands]; split <;> omega
  | cons f r ih =>
    intro w
    simp only [walk]
    by_cases hc : isCand f
    · by_cases he : f.exec
      · cases hf : w.found with
        | some g => simp [hc, he, hf, execs, List.filter_cons]
        | none =>
          simp only [hc, he, hf, Bool.not_true, Option.isSome_none, if_false, Bool.false_eq_true]
          rw [ih]
          simp [execs, cands, List.filter_cons, hc, he]
      · simp only [hc, he, Bool.not_true, Bool.not_false, if_true, if_false, Bool.false_eq_true]
        rw [ih]
        simp [execs, cands, List.filter_cons, hc, he]
    · simp only [hc, Bool.not_false, if_true]
      rw [ih]
      simp [execs, cands, List.filter_cons, hc]

theorem locateDir_eq_spec (es : List Entry) : locateDir es = specLocateDir es := by
  unfold locateDir specLocateDir
  rw [walk_spec]
  show _ = (match execs (topFiles es) with
    | [f] => mkLocated f false
    | [] => (match cands (topFiles es) with
      | [f] => mkLocated f true
      | _ => none)
    | _ => none)
  cases he : execs (topFiles es) with
  | nil =>
    cases hcs : cands (topFiles es) with
    | nil => simp
    | cons a t => cases t <;> simp
  | cons f r =>
    cases r with
    | nil => simp
    | cons g r => simp

theorem locate_eq_spec (op : Op) : locate op = specLocate op := by
  unfold locate specLocate
  rw [locateDir_eq_spec]

/-! ### a usable source installs a plugin that answers with the new version -/

theorem specLocateDir_some {es : List Entry} {loc : Located} (h : specLocateDir es = some loc) :
    ∃ f c, f ∈ topFiles es ∧ mkLocated f c = some loc := by
  unfold specLocateDir at h
  simp only at h
  cases he : ((topFiles es).filter isCand).filter (·.exec) with
  | nil =>
    rw [he] at h
    cases hc : (topFiles es).filter isCand with
    | nil => rw [hc] at h; simp at h
    | cons f t =>
      rw [hc] at h
      cases t with
      | nil =>
        simp at h
        have hf : f ∈ (topFiles es).filter isCand := by rw [hc]; simp
        exact ⟨f, true, (List.mem_filter.1 hf).1, h⟩
      | cons g t => simp at h
  | cons f t =>
    rw [he] at h
    cases t with
    | nil =>
      simp at h
      have hf : f ∈ ((topFiles es).filter isCand).filter (·.exec) := by rw [he]; simp
      exact ⟨f, false, (List.mem_filter.1 (List.mem_filter.1 hf).1).1, h⟩
    | cons g t => simp at h

theorem locateFile_some {es : List Entry} {loc : Located} (h : locateFile es = some loc) :
    ∃ e, es = [e] ∧ e.kind = .file ∧ e.exec = true ∧ mkLocated e.toFile false = some loc := by
  unfold locateFile at h
  cases es with
  | nil => simp at h
  | cons e t =>
    cases t with
    | cons g t => simp at h
    | nil =>
      simp only at h
      by_cases hk : (e.kind == EKind.file && e.exec) = true
      · simp only [hk, if_true] at h
        simp at hk
        exact ⟨e, rfl, hk.1, hk.2, h⟩
      · simp [hk] at h

theorem find_copied {op : Op} {loc : Located} (h : specLocate op = some loc) :
    findBy File.name (binName loc.name) (copied op loc) = some loc.exe := by
  unfold specLocate at h
  by_cases hd : op.srcIsDir = true
  · simp only [hd, if_true] at h
    have hl : op.viaLink = false := by
      cases hv : op.viaLink
      · rfl
      · simp [hv] at h
    simp only [hl, Bool.false_eq_true, if_false] at h
    obtain ⟨f, c, hf, hm⟩ := specLocateDir_some h
    obtain ⟨hexe, hname, hch⟩ := mkLocated_some hm
    have hfn : f.name = binName loc.name := parseName_some hname
    simp only [copied, hd, if_true]
    rw [findBy_map File.name File.name _ (by intro a; split <;> rfl)]
    have hfind := findBy_of_mem_sorted File.name (show Sorted File.name (topFiles op.entries) from sorted_sortBy File.name _) hf
    rw [← hfn, hfind]
    simp only [Option.map_some, hexe, hch]
    cases c <;> simp
  · simp only [hd] at h
    obtain ⟨e, he, _, _, hm⟩ := locateFile_some h
    obtain ⟨hexe, hname, hch⟩ := mkLocated_some hm
    have hfn : e.toFile.name = binName loc.name := parseName_some hname
    simp only [copied, hd]
    have : loc.exe.name = binName loc.name := by rw [hexe]; exact hfn
    simp [findBy, List.find?_cons, this]

theorem newOf_some {op : Op} {l : Option Located} {nw : New} (h : newOf op l = some nw) :
    ∃ loc, l = some loc ∧ validName loc.name = true ∧ metadata loc.name loc.exe = some nw.version ∧
      nw.name = loc.name ∧ nw.files = copied op loc := by
  unfold newOf at h
  cases l with
  | none => cases h
  | some loc =>
    simp only at h
    by_cases hv : validName loc.name = true
    · simp only [hv, Bool.not_true, Bool.false_eq_true, if_false] at h
      by_cases hio : blocked op loc.name = true
      · simp [hio] at h
      · simp only [hio, Bool.false_eq_true, if_false] at h
        cases hm : metadata loc.name loc.exe with
        | none => rw [hm] at h; cases h
        | some v =>
          rw [hm] at h
          cases h
          exact ⟨loc, rfl, hv, hm, rfl, rfl⟩
    · simp [hv] at h

/-- a source inside the plugin's own directory never yields a plugin to install -/
theorem newOf_not_inside {op : Op} {l : Option Located} {nw : New} (h : newOf op l = some nw) :
    insideOwn op nw.name = false := by
  unfold newOf at h
  cases l with
  | none => cases h
  | some loc =>
    simp only at h
    by_cases hv : validName loc.name = true
    · simp only [hv, Bool.not_true, Bool.false_eq_true, if_false] at h
      by_cases hio : blocked op loc.name = true
      · simp [hio] at h
      · simp only [hio, Bool.false_eq_true, if_false] at h
        cases hm : metadata loc.name loc.exe with
        | none => rw [hm] at h; cases h
        | some v =>
          rw [hm] at h
          cases h
          have hb : blocked op loc.name = false := by simpa using hio
          unfold blocked at hb
          simp only [Bool.or_eq_false_iff] at hb
          exact hb.1
    · simp [hv] at h

theorem answer_new {op : Op} {nw : New} (h : specNew op = some nw) :
    answer ⟨nw.name, nw.files⟩ = some nw.version := by
  obtain ⟨loc, hl, hv, hm, hn, hf⟩ := newOf_some h
  simp only [answer, hn, hf, hv, Bool.not_true, Bool.false_eq_true, if_false]
  rw [find_copied hl]
  simpa using hm

/-! ### the model as a function of the observed root -/

/-- the existence / version checks of Install on the observed root -/
def ruleR (p : Option PluginObs) (ow : Bool) (nw : New) : Except Err (Option Text) :=
  match p with
  | none => .ok none
  | some p => versionCheck p.version ow nw.version

def mkStep (e : Err) (ex nw : Option Text) (R : List PluginObs) : StepObs :=
  ⟨e, ex, nw, R, R.map (·.name)⟩

/-- a directory after its `notation-<name>` was deleted: nothing to fetch -/
def rmexeObs (n : Text) (p : PluginObs) : PluginObs :=
  if p.name == n then ⟨p.name, delBy FileObs.name (binName n) p.files, none⟩ else p

/-- the directory's own executable names a private interpreter -/
def exeInterp (p : PluginObs) : Bool :=
  ((findBy FileObs.name (binName p.name) p.files).map (·.interp)) == some true

/-- a directory after the private interpreters of its files were removed: the files are what
they were; it stops answering iff its executable used one -/
def rminterpObs (n : Text) (p : PluginObs) : PluginObs :=
  if p.name == n then { p with version := if exeInterp p then none else p.version } else p

/-- one operation, computed from the observed root as it is after the source chmod -/
def specStep1 (R : List PluginObs) (op : Op) : StepObs :=
  match op.kind with
  | .install =>
    match specNew op with
    | none => mkStep .other none none R
    | some nw =>
      match ruleR (existingR R nw.name) op.overwrite nw with
      | .error e => mkStep e none none R
      | .ok ex =>
        mkStep .ok ex (some nw.version) (putBy PluginObs.name (newObs nw) (delBy PluginObs.name nw.name R))
  | .uninstall =>
    if !validName op.name then mkStep .other none none R
    else if (lookupR R op.name).isSome then mkStep .ok none none (delBy PluginObs.name op.name R)
    else mkStep .notExist none none R
  | .plant =>
    if !validName op.name then mkStep .ok none none R
    else mkStep .ok none none
      (putBy PluginObs.name (pobs ⟨op.name, topFiles op.entries⟩) (delBy PluginObs.name op.name R))
  | .rmexe => mkStep .ok none none (R.map (rmexeObs op.name))
  | .rminterp => mkStep .ok none none (R.map (rminterpObs op.name))

/-- one operation, computed from the observed root only -/
def specStep (R : List PluginObs) (op : Op) : StepObs := specStep1 (touchR R op) op

def specRun : List PluginObs → List Op → List StepObs
  | _, [] => []
  | R, op :: ops => specStep R op :: specRun (specStep R op).root ops

theorem pobs_name (p : Plugin) : (pobs p).name = p.name := rfl

theorem lookupR_observe (st : State) (n : Text) :
    lookupR (observe st) n = (findBy Plugin.name n st).map pobs :=
  findBy_map Plugin.name PluginObs.name pobs pobs_name n st

theorem fobs_name (f : File) : (fobs f).name = f.name := rfl

theorem hasExe_pobs (p : Plugin) :
    hasExe (pobs p) = (findBy File.name (binName p.name) p.files).isSome := by
  unfold hasExe pobs findBy
  simp only [List.any_map]
  induction p.files with
  | nil => rfl
  | cons f r ih =>
    simp only [List.any_cons, List.find?_cons, Function.comp, fobs_name]
    cases f.name == binName p.name <;> simp [ih]

theorem versionRule_eq (st : State) (ow : Bool) {nw : New} (hv : validName nw.name = true) :
    versionRule st ow nw = ruleR (existingR (observe st) nw.name) ow nw := by
  unfold existingR
  rw [lookupR_observe]
  unfold versionRule getExe ruleR
  simp only [hv, Bool.not_true, Bool.false_eq_true, if_false]
  cases hf : findBy Plugin.name nw.name st with
  | none => simp
  | some p =>
    obtain ⟨hmem, hname⟩ := findBy_some Plugin.name hf
    simp only [Option.map_some, hasExe_pobs, hname]
    cases hx : findBy File.name (binName nw.name) p.files with
    | none => simp
    | some f =>
      have hpv : (pobs p).version = metadata nw.name f := by
        simp [pobs, answer, hname, hv, hx]
      simp [hpv]

theorem observe_replace {op : Op} {nw : New} (h : specNew op = some nw) (st : State) :
    observe (replace st nw) =
      putBy PluginObs.name (newObs nw) (delBy PluginObs.name nw.name (observe st)) := by
  unfold observe replace
  rw [map_putBy Plugin.name PluginObs.name pobs pobs_name, map_delBy Plugin.name PluginObs.name pobs pobs_name]
  congr 1
  simp [pobs, newObs, answer_new h]

theorem newOf_valid {op : Op} {l : Option Located} {nw : New} (h : newOf op l = some nw) :
    validName nw.name = true := by
  obtain ⟨loc, _, hv, _, hn, _⟩ := newOf_some h
  rw [hn]; exact hv

theorem pobs_rmexe (n : Text) (p : Plugin) :
    pobs (if p.name == n then { p with files := delBy File.name (binName n) p.files } else p) =
      rmexeObs n (pobs p) := by
  unfold rmexeObs
  by_cases h : (p.name == n) = true
  · have hn : p.name = n := by simpa using h
    simp only [h, if_true, pobs_name]
    simp only [pobs, map_delBy File.name FileObs.name fobs fobs_name]
    congr 1
    simp only [answer, hn]
    split
    · rfl
    · rw [findBy_delBy_self]; rfl
  · simp only [h, pobs_name]; rfl

theorem binName_inj {a b : Text} (h : binName a = binName b) : a = b :=
  List.append_cancel_left h

theorem specLocate_exe_name {op : Op} {loc : Located} (h : specLocate op = some loc) :
    loc.exe.name = binName loc.name := by
  unfold specLocate at h
  by_cases hd : op.srcIsDir = true
  · simp only [hd, if_true] at h
    have hl : op.viaLink = false := by
      cases hv : op.viaLink
      · rfl
      · simp [hv] at h
    simp only [hl, Bool.false_eq_true, if_false] at h
    obtain ⟨f, c, _, hm⟩ := specLocateDir_some h
    obtain ⟨hexe, hname, _⟩ := mkLocated_some hm
    rw [hexe]; exact parseName_some hname
  · simp only [hd] at h
    obtain ⟨e, _, _, _, hm⟩ := locateFile_some h
    obtain ⟨hexe, hname, _⟩ := mkLocated_some hm
    rw [hexe]; exact parseName_some hname

/-- setting the executable bit of a file that is not the directory's own plugin executable
does not change what the plugin answers -/
theorem answer_chmod (p : Plugin) (fn : Text) (h : fn ≠ binName p.name) :
    answer { p with files := p.files.map fun f => if f.name == fn then { f with exec := true } else f } =
      answer p := by
  unfold answer
  simp only
  split
  · rfl
  · rw [findBy_map File.name File.name _ (by intro a; split <;> rfl)]
    cases hf : findBy File.name (binName p.name) p.files with
    | none => rfl
    | some g =>
      have hg := (findBy_some File.name hf).2
      have hne : g.name ≠ fn := by rw [hg]; exact fun e => h e.symm
      simp [hne]

theorem observe_chmodIn (X fn : Text) (st : State) (h : fn ≠ binName X) :
    observe (chmodIn X fn st) = chmodInR X fn (observe st) := by
  unfold observe chmodIn chmodInR
  simp only [List.map_map]
  apply List.map_congr_left
  intro p _
  simp only [Function.comp, pobs_name]
  by_cases hp : (p.name == X) = true
  · have hX : p.name = X := by simpa using hp
    simp only [hp, if_true]
    have ha := answer_chmod p fn (by rw [hX]; exact h)
    simp only [pobs, ha, List.map_map]
    congr 1
    apply List.map_congr_left
    intro f _
    simp only [Function.comp, fobs]
    by_cases hf : (f.name == fn) = true <;> simp [hf, File.usesInterp]
  · simp only [hp]; rfl

theorem srcChmod_ne {op : Op} {loc : Located} {X fn : Text} (hl : specLocate op = some loc)
    (h : srcChmod op (some loc) = some (X, fn)) : fn ≠ binName X := by
  unfold srcChmod at h
  simp only at h
  split at h
  · rename_i hc
    cases h
    simp only [Bool.and_eq_true, Bool.not_eq_true', insideOwn, Bool.and_eq_false_iff] at hc
    obtain ⟨⟨⟨⟨_, _⟩, hio⟩, _⟩, hne⟩ := hc
    rw [specLocate_exe_name hl]
    intro e
    have := binName_inj e
    rcases hio with hio | hio
    · simp [hne] at hio
    · simp [this] at hio
  · cases h

theorem observe_touchSt (st : State) (op : Op) : observe (touchSt st op) = touchR (observe st) op := by
  unfold touchSt touchR
  rw [locate_eq_spec]
  cases hl : specLocate op with
  | none => simp [srcChmod]
  | some loc =>
    cases hc : srcChmod op (some loc) with
    | none => rfl
    | some xf =>
      obtain ⟨X, fn⟩ := xf
      exact observe_chmodIn X fn st (srcChmod_ne hl hc)

theorem touchR_noninstall (R : List PluginObs) (op : Op) (h : op.kind ≠ .install) : touchR R op = R := by
  unfold touchR srcChmod
  cases specLocate op with
  | none => rfl
  | some l =>
    have : (op.kind == OpKind.install) = false := beq_eq_false_iff_ne.2 h
    simp [this]

theorem touchSt_noninstall (st : State) (op : Op) (h : op.kind ≠ .install) : touchSt st op = st := by
  unfold touchSt srcChmod
  cases locate op with
  | none => rfl
  | some l =>
    have : (op.kind == OpKind.install) = false := beq_eq_false_iff_ne.2 h
    simp [this]

theorem fobs_breakInterp (f : File) : fobs (breakInterp f) = fobs f := by
  unfold breakInterp
  cases hs : f.script with
  | none => rfl
  | some sc =>
    by_cases hi : sc.interp = true
    · simp [hi, fobs, File.usesInterp, hs]
    · simp [hi]

theorem metadata_breakInterp (n : Text) (f : File) :
    metadata n (breakInterp f) = if f.usesInterp then none else metadata n f := by
  unfold breakInterp File.usesInterp
  cases hs : f.script with
  | none => simp
  | some sc =>
    by_cases hi : sc.interp = true
    · simp [hi, metadata]
    · simp [hi]

theorem pobs_rminterp (n : Text) (p : Plugin) :
    pobs (if p.name == n then { p with files := p.files.map breakInterp } else p) =
      rminterpObs n (pobs p) := by
  unfold rminterpObs
  by_cases h : (p.name == n) = true
  · simp only [h, if_true, pobs_name]
    have hfiles : (p.files.map breakInterp).map fobs = p.files.map fobs := by
      simp only [List.map_map]
      apply List.map_congr_left
      intro f _
      exact fobs_breakInterp f
    have hfind : findBy File.name (binName p.name) (p.files.map breakInterp) =
        (findBy File.name (binName p.name) p.files).map breakInterp :=
      findBy_map File.name File.name breakInterp (by
        intro a; unfold breakInterp
        cases a.script with
        | none => rfl
        | some sc => by_cases hi : sc.interp = true <;> simp [hi]) _ _
    have hex : exeInterp (pobs p) =
        (((findBy File.name (binName p.name) p.files).map File.usesInterp) == some true) := by
      unfold exeInterp
      simp only [pobs]
      rw [findBy_map File.name FileObs.name fobs fobs_name]
      cases findBy File.name (binName p.name) p.files <;> simp [fobs]
    rw [hex]
    simp only [pobs, hfiles]
    congr 1
    simp only [answer]
    split
    · simp
    · rw [hfind]
      cases hf : findBy File.name (binName p.name) p.files with
      | none => simp
      | some g =>
        simp only [Option.map_some, Option.bind_some, metadata_breakInterp]
        cases g.usesInterp <;> simp
  · simp only [h, pobs_name]; rfl

/-- Install on the touched root = the observable-level step on the touched observed root -/
theorem install1_eq_spec (st : State) (op : Op) (hk : op.kind = .install) :
    (let r := install1 st op
     (⟨r.1.err, r.1.existing, r.1.new, observe r.2, (observe r.2).map (·.name)⟩ : StepObs)) =
      specStep1 (observe st) op ∧
      observe (install1 st op).2 = (specStep1 (observe st) op).root := by
  unfold specStep1
  simp only [hk, install1, locate_eq_spec]
  show _ ∧ _
  cases hn : specNew op with
  | none =>
    have : newOf op (specLocate op) = none := hn
    simp [this, mkStep]
  | some nw =>
    have hn' : newOf op (specLocate op) = some nw := hn
    simp only [hn']
    rw [versionRule_eq st op.overwrite (newOf_valid hn')]
    cases hr : ruleR (existingR (observe st) nw.name) op.overwrite nw with
    | error e => simp [mkStep]
    | ok ex => simp [mkStep, observe_replace hn]

/-- one step of the model = the observable-level step -/
theorem step_eq_spec (st : State) (op : Op) :
    stepObs st op = specStep (observe st) op ∧
      observe (step st op).2 = (specStep (observe st) op).root := by
  unfold specStep
  cases hk : op.kind with
  | install =>
    have h := install1_eq_spec (touchSt st op) op hk
    rw [observe_touchSt] at h
    simp only [stepObs, step, hk, install]
    exact h
  | uninstall =>
    rw [touchR_noninstall _ _ (by rw [hk]; exact fun e => by cases e)]
    unfold stepObs step specStep1
    simp only [hk, uninstall]
    by_cases hv : validName op.name = true
    · simp only [hv, Bool.not_true, Bool.false_eq_true, if_false]
      rw [lookupR_observe]
      cases hf : findBy Plugin.name op.name st with
      | none => simp [mkStep]
      | some p =>
        simp [mkStep, observe, map_delBy Plugin.name PluginObs.name pobs pobs_name]
    · simp [hv, mkStep]
  | plant =>
    rw [touchR_noninstall _ _ (by rw [hk]; exact fun e => by cases e)]
    unfold stepObs step specStep1
    simp only [hk, plant]
    by_cases hv : validName op.name = true
    · simp [hv, mkStep, observe, map_putBy Plugin.name PluginObs.name pobs pobs_name,
        map_delBy Plugin.name PluginObs.name pobs pobs_name]
    · simp [hv, mkStep]
  | rmexe =>
    rw [touchR_noninstall _ _ (by rw [hk]; exact fun e => by cases e)]
    unfold stepObs step specStep1
    simp only [hk, rmexe]
    have : observe (List.map (fun p => if (p.name == op.name) = true then
        { p with files := delBy File.name (binName op.name) p.files } else p) st) =
        (observe st).map (rmexeObs op.name) := by
      simp only [observe, List.map_map]
      apply List.map_congr_left
      intro p _
      exact pobs_rmexe op.name p
    simp only [mkStep, this]
    simp
  | rminterp =>
    rw [touchR_noninstall _ _ (by rw [hk]; exact fun e => by cases e)]
    unfold stepObs step specStep1
    simp only [hk, rminterp]
    have : observe (List.map (fun p => if (p.name == op.name) = true then
        { p with files := p.files.map breakInterp } else p) st) =
        (observe st).map (rminterpObs op.name) := by
      simp only [observe, List.map_map]
      apply List.map_congr_left
      intro p _
      exact pobs_rminterp op.name p
    simp only [mkStep, this]
    simp

theorem runOps_eq_spec : ∀ (ops : List Op) (st : State),
    runOps st ops = specRun (observe st) ops := by
  intro ops
  induction ops with
  | nil => intro st; rfl
  | cons op ops ih =>
    intro st
    obtain ⟨h1, h3⟩ := step_eq_spec st op
    simp only [runOps, specRun]
    rw [h1, ih, h3]

end NotationModel.C20

/-
C19 - helper lemmas: the state machine of `Model/C19.lean` (`step`, `scan`, `fetchSig`) run over a
history equals the declarative reading of that history (`stored`, `sigsFor`, `refused`,
`expectFetch`). Everything is by induction over the history - no bound on its length.
-/
import NotationModel.Model.C19

set_option linter.unusedSimpArgs false
set_option linter.unusedVariables false

namespace NotationModel.C19

/-- the state after a history (newest operation first) -/
def stateOf : List Op → State
  | [] => {}
  | o :: h => (step (stateOf h) o).1

/-- the manifests a history leaves in the layout, in order of arrival -/
def manifestsOf : List Op → List Manifest
  | [] => []
  | o :: h => manifestsOf h ++ (if creates h o then [mkManifest o] else [])

/-- `o` occurs in the history and stored a manifest when it was executed -/
def CreatedIn (o : Op) : List Op → Prop
  | [] => False
  | x :: h => (x = o ∧ creates h x = true) ∨ CreatedIn o h

/-- `o` occurs in the history and stored a signature manifest of `q` when it was executed -/
def SigIn (q : Desc) (o : Op) : List Op → Prop
  | [] => False
  | x :: h => (x = o ∧ isSigFor h x q = true) ∨ SigIn q o h

/-! ### blobs -/

theorem storedSize_isSome : ∀ (h : List Op) (b : Nat), (storedSize h b).isSome = stored h b := by
  intro h b
  induction h with
  | nil => simp [storedSize, stored]
  | cons o h ih =>
    have ih' : stored h b = (storedSize h b).isSome := ih.symm
    simp only [storedSize, stored, List.any_cons] at *
    rw [ih']
    cases hs : storedSize h b with
    | some s => simp
    | none =>
      simp only [Option.isSome_none, Bool.or_false]
      by_cases hw : (writesBlob o && o.blob == b) = true <;> simp [hw]

theorem blobSize_append (st : State) (x : Nat × Nat) (b : Nat) (ms : List Manifest) :
    blobSize { manifests := ms, blobs := st.blobs ++ [x] } b =
      match blobSize st b with
      | some s => some s
      | none => if x.1 == b then some x.2 else none := by
  simp only [blobSize, List.find?_append]
  cases h : st.blobs.find? (fun y => y.1 == b) with
  | some y => simp
  | none =>
    simp only [Option.none_or, Option.map_none]
    by_cases hx : (x.1 == b) = true <;> simp [List.find?, hx]

theorem step_exists (st : State) (o : Op) (hk : o.kind ≠ .raw) (hex : (blobSize st o.blob).isSome = true) :
    step st o = (st, false) := by
  unfold step
  cases h : o.kind with
  | raw => exact absurd h hk
  | push => simp [hex]
  | blob => simp [hex]

theorem step_push (st : State) (o : Op) (hk : o.kind = .push) (hex : (blobSize st o.blob).isSome = false) :
    step st o = ({ manifests := st.manifests ++ [mkManifest o], blobs := st.blobs ++ [(o.blob, o.bsize)] }, true) := by
  unfold step; simp [hk, hex]

theorem step_blob (st : State) (o : Op) (hk : o.kind = .blob) (hex : (blobSize st o.blob).isSome = false) :
    step st o = ({ manifests := st.manifests, blobs := st.blobs ++ [(o.blob, o.bsize)] }, true) := by
  unfold step; simp [hk, hex]

theorem step_raw (st : State) (o : Op) (hk : o.kind = .raw) :
    step st o = ({ manifests := st.manifests ++ [mkManifest o], blobs := st.blobs }, true) := by
  unfold step; simp [hk]

theorem blobSize_same_blobs (ms ms' : List Manifest) (bs : List (Nat × Nat)) (b : Nat) :
    blobSize { manifests := ms, blobs := bs } b = blobSize { manifests := ms', blobs := bs } b := rfl

theorem blobSize_stateOf : ∀ (h : List Op) (b : Nat), blobSize (stateOf h) b = storedSize h b := by
  intro h
  induction h with
  | nil => intro b; simp [stateOf, blobSize, storedSize]
  | cons o h ih =>
    intro b
    simp only [stateOf, storedSize]
    by_cases hraw : o.kind = .raw
    · rw [step_raw _ _ hraw]
      have : blobSize { manifests := (stateOf h).manifests ++ [mkManifest o], blobs := (stateOf h).blobs } b
          = blobSize (stateOf h) b := rfl
      rw [this, ih]
      cases storedSize h b <;> simp [writesBlob, hraw]
    · have hw : writesBlob o = true := by
        cases hk : o.kind <;> simp_all [writesBlob]
      by_cases hex : (blobSize (stateOf h) o.blob).isSome = true
      · rw [step_exists _ _ hraw hex, ih]
        cases hs : storedSize h b with
        | some s => rfl
        | none =>
          have : ¬ (o.blob = b) := by
            intro heq
            rw [heq, ih, hs] at hex
            simp at hex
          simp [this]
      · have hex' : (blobSize (stateOf h) o.blob).isSome = false := by simpa using hex
        have hst : blobSize (step (stateOf h) o).1 b =
            blobSize { manifests := (stateOf h).manifests, blobs := (stateOf h).blobs ++ [(o.blob, o.bsize)] } b := by
          cases hk : o.kind with
          | raw => exact absurd hk hraw
          | push => rw [step_push _ _ hk hex']; rfl
          | blob => rw [step_blob _ _ hk hex']
        rw [hst, blobSize_append, ih]
        cases hs : storedSize h b <;> simp [hw]

theorem hasBlob_stateOf (h : List Op) (b : Nat) : (blobSize (stateOf h) b).isSome = stored h b := by
  rw [blobSize_stateOf, storedSize_isSome]

/-- the "no error" flag of a step is what the history says -/
theorem step_ok (h : List Op) (o : Op) : (step (stateOf h) o).2 = succeeds h o := by
  have hb := hasBlob_stateOf h o.blob
  by_cases hraw : o.kind = .raw
  · rw [step_raw _ _ hraw]; simp [succeeds, hraw]
  · have hsucc : succeeds h o = !stored h o.blob := by
      unfold succeeds; cases hk : o.kind <;> simp_all
    by_cases hs : stored h o.blob = true
    · rw [step_exists _ _ hraw (by rw [hb, hs]), hsucc, hs]; rfl
    · have hs' : stored h o.blob = false := by simpa using hs
      rw [hsucc, hs']
      cases hk : o.kind with
      | raw => exact absurd hk hraw
      | push => rw [step_push _ _ hk (by rw [hb, hs'])]; rfl
      | blob => rw [step_blob _ _ hk (by rw [hb, hs'])]; rfl

/-! ### manifests -/

theorem manifests_stateOf : ∀ (h : List Op), (stateOf h).manifests = manifestsOf h := by
  intro h
  induction h with
  | nil => rfl
  | cons o h ih =>
    have hb := hasBlob_stateOf h o.blob
    simp only [stateOf, manifestsOf]
    cases hk : o.kind with
    | raw => rw [step_raw _ _ hk]; simp [creates, hk, ih]
    | push =>
      by_cases hs : stored h o.blob = true
      · rw [step_exists _ _ (by simp [hk]) (by rw [hb, hs])]; simp [creates, hk, hs, ih]
      · have hs' : stored h o.blob = false := by simpa using hs
        rw [step_push _ _ hk (by rw [hb, hs'])]; simp [creates, hk, hs', ih]
    | blob =>
      by_cases hs : stored h o.blob = true
      · rw [step_exists _ _ (by simp [hk]) (by rw [hb, hs])]; simp [creates, hk, ih]
      · have hs' : stored h o.blob = false := by simpa using hs
        rw [step_blob _ _ hk (by rw [hb, hs'])]; simp [creates, hk, ih]

@[simp] theorem mk_id (o : Op) : (mkManifest o).id = o.id := by
  unfold mkManifest; cases o.kind <;> rfl
@[simp] theorem mk_subject (o : Op) : (mkManifest o).subject = o.subject := by
  unfold mkManifest; cases o.kind <;> rfl
@[simp] theorem mk_size (o : Op) : (mkManifest o).size = o.msize := by
  unfold mkManifest; cases o.kind <;> rfl
@[simp] theorem mk_mt (o : Op) : (mkManifest o).mt = opMt o := by
  unfold mkManifest opMt; cases o.kind <;> simp
@[simp] theorem mk_layers (o : Op) : (mkManifest o).layers = opLayers o := by
  unfold mkManifest opLayers; cases o.kind <;> simp

theorem mem_manifestsOf_id : ∀ (h : List Op) (m : Manifest), m ∈ manifestsOf h → m.id ∈ h.map (·.id) := by
  intro h
  induction h with
  | nil => intro m hm; simp [manifestsOf] at hm
  | cons o h ih =>
    intro m hm
    simp only [manifestsOf, List.mem_append] at hm
    rcases hm with hm | hm
    · simp only [List.map_cons, List.mem_cons]; exact Or.inr (ih m hm)
    · by_cases hc : creates h o = true
      · simp [hc] at hm; subst hm; simp
      · simp [hc] at hm

/-- distinct labels: looking a created manifest up by its label finds it -/
theorem find_created : ∀ (h : List Op) (o : Op), (h.map (·.id)).Nodup → CreatedIn o h →
    (manifestsOf h).find? (fun m => m.id == o.id) = some (mkManifest o) := by
  intro h
  induction h with
  | nil => intro o _ hc; exact hc.elim
  | cons x h ih =>
    intro o hn hc
    simp only [List.map_cons, List.nodup_cons] at hn
    simp only [manifestsOf, List.find?_append]
    rcases hc with ⟨hx, hcr⟩ | hc
    · subst hx
      have hnone : (manifestsOf h).find? (fun m => m.id == x.id) = none := by
        apply List.find?_eq_none.2
        intro m hm
        have hmem := mem_manifestsOf_id h m hm
        intro heq
        have hid : m.id = x.id := by simpa using heq
        rw [hid] at hmem
        exact hn.1 hmem
      simp [hnone, hcr, List.find?]
    · rw [ih o hn.2 hc]; simp

/-! ### the scan loop -/

def bigP (m : Manifest) : Bool := isManifestType m.mt && decide (m.size > capM)
def keepP (q : Desc) (m : Manifest) : Bool := isManifestType m.mt && m.subject == some q && m.atype == notationType

theorem scan_spec (q : Desc) : ∀ (ms : List Manifest),
    (scan q ms).err = ms.any bigP ∧
    (ms.any bigP = false → (scan q ms).kept = ms.filter (keepP q)) ∧
    (scan q ms).read.any (fun m => decide (m.size > capM)) = false := by
  intro ms
  induction ms with
  | nil => simp [scan]
  | cons m r ih =>
    obtain ⟨ih1, ih2, ih3⟩ := ih
    have hcase : ∀ (hmt : isManifestType m.mt = true),
        (scanCase q m (scan q r)).err = (bigP m || r.any bigP) ∧
        ((bigP m || r.any bigP) = false → (scanCase q m (scan q r)).kept = (m :: r).filter (keepP q)) ∧
        (scanCase q m (scan q r)).read.any (fun m => decide (m.size > capM)) = false := by
      intro hmt
      by_cases hbig : m.size > capM
      · simp [scanCase, hbig, bigP, hmt]
      · have hb : bigP m = false := by simp [bigP, hbig]
        simp only [scanCase, hbig, if_false, hb, Bool.false_or]
        by_cases hsub : (m.subject != some q) = true
        · simp only [hsub, if_true]
          refine ⟨ih1, ?_, ?_⟩
          · intro hr
            have : keepP q m = false := by
              simp only [keepP, hmt, Bool.true_and]
              have : (m.subject == some q) = false := by simpa [bne] using hsub
              simp [this]
            simp [List.filter_cons, this, ih2 hr]
          · simp [List.any_cons, hbig, ih3]
        · have hsub' : (m.subject == some q) = true := by
            cases hh : (m.subject == some q) <;> simp [bne, hh] at hsub ⊢
          simp only [hsub, if_false]
          by_cases hat : (m.atype == notationType) = true
          · simp only [hat, if_true]
            refine ⟨ih1, ?_, ?_⟩
            · intro hr
              have : keepP q m = true := by simp [keepP, hmt, hsub', hat]
              simp [List.filter_cons, this, ih2 hr]
            · simp [List.any_cons, hbig, ih3]
          · simp only [hat, if_false]
            refine ⟨ih1, ?_, ?_⟩
            · intro hr
              have : keepP q m = false := by simp [keepP, hmt, hsub', hat]
              simp [List.filter_cons, this, ih2 hr]
            · simp [List.any_cons, hbig, ih3]
    simp only [scan, List.any_cons]
    by_cases h1 : (m.mt == mtArtifact) = true
    · simp only [h1, if_true]
      exact hcase (by simp [isManifestType, h1])
    · simp only [h1, if_false]
      by_cases h2 : (m.mt == mtImage) = true
      · simp only [h2, if_true]
        exact hcase (by simp [isManifestType, h2])
      · simp only [h2, if_false]
        have hmt : isManifestType m.mt = false := by simp [isManifestType, h1, h2]
        have hb : bigP m = false := by simp [bigP, hmt]
        have hk : keepP q m = false := by simp [keepP, hmt]
        refine ⟨by simp [hb, ih1], ?_, ih3⟩
        intro hr
        simp only [hb, Bool.false_or] at hr
        simp [List.filter_cons, hk, ih2 hr]

/-! ### candidates, refusal and the listed signatures, by induction over the history -/

theorem isCandidate_mk (mode : Index) (q : Desc) (o : Op) :
    isCandidate mode q (mkManifest o) = subjMatches mode q o.subject := by
  simp only [isCandidate, subjMatches, mk_subject]

theorem isManifestType_image : isManifestType mtImage = true := by decide

theorem refused_spec (mode : Index) (q : Desc) : ∀ (h : List Op),
    ((manifestsOf h).filter (isCandidate mode q)).any bigP = refused mode q h := by
  intro h
  induction h with
  | nil => simp [manifestsOf, refused]
  | cons o h ih =>
    simp only [manifestsOf, refused, List.filter_append, List.any_append, ih]
    congr 1
    by_cases hc : creates h o = true
    · simp only [hc, if_true, Bool.true_and]
      by_cases hs : subjMatches mode q o.subject = true
      · simp [List.filter_cons, isCandidate_mk, hs, bigP]
      · simp [List.filter_cons, isCandidate_mk, hs]
    · simp [hc]

theorem keep_implies_candidate (mode : Index) (q : Desc) (m : Manifest) (hk : keepP q m = true) :
    isCandidate mode q m = true := by
  simp only [keepP, Bool.and_eq_true] at hk
  have hs : m.subject = some q := by simpa using hk.1.2
  simp only [isCandidate, hs]
  cases mode <;> simp

theorem isSigFor_spec (h : List Op) (o : Op) (q : Desc) :
    (creates h o && keepP q (mkManifest o)) = isSigFor h o q := by
  simp only [creates, keepP, isSigFor, mk_mt, mk_subject, opMt]
  cases hk : o.kind with
  | push =>
    have : (mkManifest o).atype = notationType := by simp [mkManifest, hk]
    simp [this, isManifestType_image]
  | raw =>
    have : (mkManifest o).atype = o.atype := by simp [mkManifest, hk]
    simp [this]
  | blob => simp

theorem kept_spec (mode : Index) (q : Desc) : ∀ (h : List Op),
    ((manifestsOf h).filter (isCandidate mode q)).filter (keepP q) = (sigsFor q h).map mkManifest := by
  intro h
  induction h with
  | nil => simp [manifestsOf, sigsFor]
  | cons o h ih =>
    simp only [manifestsOf, sigsFor, List.filter_append, List.map_append, ih]
    congr 1
    have hspec := isSigFor_spec h o q
    by_cases hc : creates h o = true
    · simp only [hc, Bool.true_and] at hspec
      simp only [hc, if_true]
      by_cases hk : keepP q (mkManifest o) = true
      · have hcand := keep_implies_candidate mode q _ hk
        rw [← hspec]
        simp [List.filter_cons, hcand, hk]
      · rw [← hspec]
        by_cases hcand : isCandidate mode q (mkManifest o) = true
        · simp [List.filter_cons, hcand, hk]
        · simp [List.filter_cons, hcand, hk]
    · simp only [hc, Bool.false_and] at hspec
      simp [hc, ← hspec]

/-- **what a listing is**, for every history: refused exactly when a referrer manifest is over the
cap, otherwise exactly the signature manifests of `q` in order of arrival; an oversized
manifest is never read -/
theorem listObs_spec (mode : Index) (h : List Op) (q : Desc) :
    listObs mode (stateOf h) q =
      { ok := !refused mode q h,
        sigs := if refused mode q h then [] else (sigsFor q h).map (fun o => sigObs (stateOf h) (mkManifest o)),
        bigRead := false } := by
  have hs := scan_spec q ((manifestsOf h).filter (isCandidate mode q))
  obtain ⟨h1, h2, h3⟩ := hs
  rw [refused_spec] at h1 h2
  simp only [listObs, manifests_stateOf, h1, h3]
  by_cases hr : refused mode q h = true
  · simp [hr]
  · have hr' : refused mode q h = false := by simpa using hr
    rw [h2 hr', kept_spec]
    simp [hr', List.map_map, Function.comp_def]

/-! ### membership in the expected listing -/

theorem mem_sigsFor (q : Desc) (o : Op) : ∀ (h : List Op), o ∈ sigsFor q h ↔ SigIn q o h := by
  intro h
  induction h with
  | nil => simp [sigsFor, SigIn]
  | cons x h ih =>
    simp only [sigsFor, SigIn, List.mem_append, ih]
    by_cases hx : isSigFor h x q = true
    · simp only [hx, if_true, List.mem_singleton, and_true]
      constructor
      · rintro (h1 | h1)
        · exact Or.inr h1
        · exact Or.inl h1.symm
      · rintro (h1 | h1)
        · exact Or.inr h1.symm
        · exact Or.inl h1
    · simp [hx]

theorem isSigFor_creates (h : List Op) (o : Op) (q : Desc) (hs : isSigFor h o q = true) :
    creates h o = true := by
  rw [← isSigFor_spec] at hs
  simp only [Bool.and_eq_true] at hs
  exact hs.1

theorem sigIn_created (q : Desc) (o : Op) : ∀ (h : List Op), SigIn q o h → CreatedIn o h := by
  intro h
  induction h with
  | nil => intro hs; exact hs.elim
  | cons x h ih =>
    intro hs
    rcases hs with ⟨hx, hsig⟩ | hs
    · exact Or.inl ⟨hx, isSigFor_creates h x q hsig⟩
    · exact Or.inr (ih hs)

/-- what being a signature manifest of `q` means, read off the operation itself -/
theorem sigIn_props (q : Desc) (o : Op) : ∀ (h : List Op), SigIn q o h →
    o ∈ h ∧ o.subject = some q ∧ isManifestType (opMt o) = true ∧
    (o.kind = .push ∨ (o.kind = .raw ∧ o.atype = notationType ∧ isManifestType o.mt = true)) := by
  intro h
  induction h with
  | nil => intro hs; exact hs.elim
  | cons x h ih =>
    intro hs
    rcases hs with ⟨hx, hsig⟩ | hs
    · subst hx
      refine ⟨List.mem_cons_self, ?_⟩
      simp only [isSigFor] at hsig
      cases hk : x.kind with
      | push =>
        simp only [hk, Bool.and_eq_true] at hsig
        exact ⟨by simpa using hsig.2, by simp [opMt, hk, isManifestType_image], Or.inl rfl⟩
      | raw =>
        simp only [hk, Bool.and_eq_true] at hsig
        exact ⟨by simpa using hsig.1.2, by simp [opMt, hk, hsig.1.1],
          Or.inr ⟨rfl, by simpa using hsig.2, hsig.1.1⟩⟩
      | blob => simp [hk] at hsig
    · obtain ⟨h1, h2⟩ := ih hs
      exact ⟨List.mem_cons_of_mem _ h1, h2⟩

/-- a listing that is not refused has no oversized signature manifest -/
theorem sigIn_small (mode : Index) (q : Desc) (o : Op) : ∀ (h : List Op), refused mode q h = false →
    SigIn q o h → o.msize ≤ capM := by
  intro h
  induction h with
  | nil => intro _ hs; exact hs.elim
  | cons x h ih =>
    intro hr hs
    simp only [refused, Bool.or_eq_false_iff] at hr
    rcases hs with ⟨hx, hsig⟩ | hs
    · subst hx
      have hp := sigIn_props q x (x :: h) (Or.inl ⟨rfl, hsig⟩)
      have hc := isSigFor_creates h x q hsig
      have hm : subjMatches mode q x.subject = true := by
        rw [hp.2.1]; cases mode <;> simp [subjMatches]
      have := hr.2
      simp only [hc, hm, hp.2.2.1, Bool.true_and, decide_eq_false_iff_not] at this
      omega
    · exact ih hr.1 hs

/-! ### fetch -/

theorem storedSize_keep (x : Op) (h : List Op) (b s : Nat) (hs : storedSize h b = some s) :
    storedSize (x :: h) b = some s := by
  simp [storedSize, hs]

/-- the envelope of a successful `PushSignature` is in the layout with its size, forever -/
theorem pushed_blob_stored (o : Op) (hk : o.kind = .push) : ∀ (h : List Op), CreatedIn o h →
    storedSize h o.blob = some o.bsize := by
  intro h
  induction h with
  | nil => intro hc; exact hc.elim
  | cons x h ih =>
    intro hc
    rcases hc with ⟨hx, hcr⟩ | hc
    · subst hx
      simp only [creates, hk] at hcr
      have hnone : storedSize h x.blob = none := by
        have := storedSize_isSome h x.blob
        cases hs : storedSize h x.blob with
        | none => rfl
        | some s => rw [hs] at this; simp at this; rw [← this] at hcr; simp at hcr
      simp [storedSize, hnone, writesBlob, hk]
    · exact storedSize_keep x h _ _ (ih hc)

theorem fetchLayers_spec (h : List Op) (o : Op) :
    fetchLayers (stateOf h) (opLayers o) = expectFetch h o := by
  unfold fetchLayers expectFetch
  split <;> simp [blobSize_stateOf]

/-- fetching a stored manifest by its true descriptor -/
theorem fetchSig_spec (h : List Op) (o : Op) (hn : (h.map (·.id)).Nodup) (hc : CreatedIn o h)
    (hmt : isManifestType (opMt o) = true) (hsz : o.msize ≤ capM) :
    fetchSig (stateOf h) ⟨opMt o, o.id, o.msize⟩ = expectFetch h o := by
  have hfind := find_created h o hn hc
  have hmt' : ((opMt o != mtArtifact) && (opMt o != mtImage)) = false := by
    simp only [isManifestType, Bool.or_eq_true] at hmt
    rcases hmt with h1 | h1 <;> simp [bne, h1]
  have hsz' : ¬ (o.msize > capM) := by omega
  simp only [fetchSig, hmt', hsz', manifests_stateOf, hfind, mk_size, mk_mt, mk_layers,
    bne_self_eq_false, beq_self_eq_true, if_true, if_false, Bool.false_eq_true]
  exact fetchLayers_spec h o

end NotationModel.C19

/-
C14 - the inductive invariant of the temp-file + rename protocol and its preservation by every
event (space part `Inv`, time part `InvT`). Used by `Props/C14.lean`.
-/
import NotationModel.Model.C14
set_option linter.unusedSimpArgs false
set_option linter.unusedVariables false

namespace NotationModel.C14

structure Inv (p : Prog) (s : Sys) : Prop where
  /-- a key name points to a complete entry written for that key by the current writer -/
  key_sealed : ∀ k i, s.dir (.key k) = some i →
      ∃ w, s.cur k = some w ∧ p.wkey w = k ∧ s.ino i = p.wdata w ∧ s.wst w = .done ∧
        (∀ w', ¬ Owns s w' i) ∧ i < s.next
  cur_none : ∀ k, s.dir (.key k) = none → s.cur k = none
  /-- inodes in progress are fresh-allocated, private, and hold a prefix -/
  own_lt : ∀ w i, Owns s w i → i < s.next
  own_inj : ∀ w w' i, Owns s w i → Owns s w' i → w = w'
  opened_prefix : ∀ w t i off, s.wst w = .opened t i off → s.ino i = (p.wdata w).take off ∧ off ≤ (p.wdata w).length
  closed_full : ∀ w t i, s.wst w = .closed t i → s.ino i = p.wdata w
  /-- a reader holds a sealed inode of its key and has read a prefix of it -/
  reading_ok : ∀ r i buf snap, s.rst r = .reading i buf snap →
      (∀ w', ¬ Owns s w' i) ∧ i < s.next ∧ ∃ w, snap = some w ∧ p.wkey w = p.rkey r ∧ s.ino i = p.wdata w ∧
        buf = (p.wdata w).take buf.length
  finished_ok : ∀ r b snap, s.rst r = .finished (some b) snap →
      ∃ w, snap = some w ∧ p.wkey w = p.rkey r ∧ b = p.wdata w

theorem inv_init (p : Prog) : Inv p init := by
  constructor <;> simp [init, Owns]

/-- crash only removes ownership -/
theorem inv_crash (p : Prog) (s : Sys) (w : Nat) (h : Inv p s) : Inv p (step p s (.crash w)) := by
  simp only [step]
  split
  · exact h
  · rename_i hnd
    have hown : ∀ w' i, Owns { s with wst := upd s.wst w .dead } w' i → Owns s w' i := by
      intro w' i ho
      simp only [Owns] at ho ⊢
      by_cases hw : w' = w
      · subst hw; simp at ho
      · simpa [upd, hw] using ho
    constructor
    · intro k i hk
      obtain ⟨w0, h1, h2, h3, h4, h5, h6⟩ := h.key_sealed k i hk
      refine ⟨w0, h1, h2, h3, ?_, fun w' ho => h5 w' (hown w' i ho), h6⟩
      by_cases hw : w0 = w
      · subst hw; exact absurd h4 (by simpa using hnd)
      · simp [upd, hw, h4]
    · exact h.cur_none
    · intro w' i ho; exact h.own_lt w' i (hown w' i ho)
    · intro w1 w2 i h1 h2; exact h.own_inj w1 w2 i (hown _ _ h1) (hown _ _ h2)
    · intro w' t i off hw'
      by_cases hw : w' = w
      · subst hw; simp at hw'
      · simp [upd, hw] at hw'; exact h.opened_prefix w' t i off hw'
    · intro w' t i hw'
      by_cases hw : w' = w
      · subst hw; simp at hw'
      · simp [upd, hw] at hw'; exact h.closed_full w' t i hw'
    · intro r i buf snap hr
      obtain ⟨h1, h2⟩ := h.reading_ok r i buf snap hr
      exact ⟨fun w' ho => h1 w' (hown w' i ho), h2⟩
    · exact h.finished_ok

theorem inv_write (p : Prog) (s : Sys) (w n : Nat) (h : Inv p s) : Inv p (step p s (.write w n)) := by
  simp only [step]
  split
  · rename_i t i off hw
    have hown_w : Owns s w i := Or.inl ⟨t, off, hw⟩
    have hown : ∀ w' j, Owns { s with ino := upd s.ino i ((p.wdata w).take (min (off + n) (p.wdata w).length)),
                                      wst := upd s.wst w (.opened t i (min (off + n) (p.wdata w).length)) } w' j ↔ Owns s w' j := by
      intro w' j
      simp only [Owns]
      by_cases hww : w' = w
      · subst hww; simp [hw]
      · simp [upd, hww]
    constructor
    · intro k j hk
      obtain ⟨w0, h1, h2, h3, h4, h5, h6⟩ := h.key_sealed k j hk
      have hji : j ≠ i := fun e => h5 w (e ▸ hown_w)
      refine ⟨w0, h1, h2, by simpa [upd, hji] using h3, ?_, fun w' ho => h5 w' ((hown w' j).1 ho), h6⟩
      have : w0 ≠ w := fun e => by subst e; simp [hw] at h4
      simp [upd, this, h4]
    · exact h.cur_none
    · intro w' j ho; exact h.own_lt w' j ((hown w' j).1 ho)
    · intro w1 w2 j h1 h2; exact h.own_inj w1 w2 j ((hown _ _).1 h1) ((hown _ _).1 h2)
    · intro w' t' j off' hw'
      by_cases hww : w' = w
      · subst hww
        simp at hw'
        obtain ⟨rfl, rfl, rfl⟩ := hw'
        simp [upd]
        omega
      · simp [upd, hww] at hw'
        have hj : j ≠ i := fun e => hww (h.own_inj w' w i (e ▸ Or.inl ⟨t', off', hw'⟩) hown_w)
        simpa [upd, hj] using h.opened_prefix w' t' j off' hw'
    · intro w' t' j hw'
      by_cases hww : w' = w
      · subst hww; simp at hw'
      · simp [upd, hww] at hw'
        have hj : j ≠ i := fun e => hww (h.own_inj w' w i (e ▸ Or.inr ⟨t', hw'⟩) hown_w)
        simpa [upd, hj] using h.closed_full w' t' j hw'
    · intro r j buf snap hr
      obtain ⟨h1, hlt, w0, h2⟩ := h.reading_ok r j buf snap hr
      have hji : j ≠ i := fun e => h1 w (e ▸ hown_w)
      exact ⟨fun w' ho => h1 w' ((hown w' j).1 ho), hlt, w0, by simpa [upd, hji] using h2⟩
    · exact h.finished_ok
  · exact h

theorem inv_rename (p : Prog) (s : Sys) (w : Nat) (h : Inv p s) : Inv p (step p s (.rename w)) := by
  simp only [step]
  split
  · rename_i t i hw
    have hown_w : Owns s w i := Or.inr ⟨t, hw⟩
    have hown : ∀ w' j, Owns { s with dir := upd (upd s.dir (.tmp t) none) (.key (p.wkey w)) (some i),
                                      wst := upd s.wst w .done, cur := upd s.cur (p.wkey w) (some w),
                                      now := s.now + 1, stamp := upd s.stamp w s.now } w' j → Owns s w' j ∧ w' ≠ w := by
      intro w' j ho
      simp only [Owns] at ho ⊢
      by_cases hww : w' = w
      · subst hww; simp at ho
      · exact ⟨by simpa [upd, hww] using ho, hww⟩
    constructor
    · intro k j hk
      by_cases hkk : k = p.wkey w
      · subst hkk
        simp [upd] at hk
        subst hk
        refine ⟨w, by simp [upd], rfl, h.closed_full w t i hw, by simp [upd], ?_, h.own_lt w i hown_w⟩
        intro w' ho
        obtain ⟨ho', hne⟩ := hown w' i ho
        exact hne (h.own_inj w' w i ho' hown_w)
      · have hk' : s.dir (.key k) = some j := by
          have : (FName.key k) ≠ FName.key (p.wkey w) := by simpa using hkk
          simpa [upd, this] using hk
        obtain ⟨w0, h1, h2, h3, h4, h5, h6⟩ := h.key_sealed k j hk'
        have hw0 : w0 ≠ w := fun e => by subst e; simp [hw] at h4
        exact ⟨w0, by simpa [upd, hkk] using h1, h2, h3, by simp [upd, hw0, h4], fun w' ho => h5 w' (hown w' j ho).1, h6⟩
    · intro k hk
      by_cases hkk : k = p.wkey w
      · subst hkk; simp [upd] at hk
      · have : (FName.key k) ≠ FName.key (p.wkey w) := by simpa using hkk
        have hk' : s.dir (.key k) = none := by simpa [upd, this] using hk
        simpa [upd, hkk] using h.cur_none k hk'
    · intro w' j ho; exact h.own_lt w' j (hown w' j ho).1
    · intro w1 w2 j h1 h2; exact h.own_inj w1 w2 j (hown _ _ h1).1 (hown _ _ h2).1
    · intro w' t' j off' hw'
      by_cases hww : w' = w
      · subst hww; simp at hw'
      · simp [upd, hww] at hw'; exact h.opened_prefix w' t' j off' hw'
    · intro w' t' j hw'
      by_cases hww : w' = w
      · subst hww; simp at hw'
      · simp [upd, hww] at hw'; exact h.closed_full w' t' j hw'
    · intro r j buf snap hr
      obtain ⟨h1, h2⟩ := h.reading_ok r j buf snap hr
      exact ⟨fun w' ho => h1 w' (hown w' j ho).1, h2⟩
    · exact h.finished_ok
  · exact h

theorem inv_create (p : Prog) (s : Sys) (w t : Nat) (h : Inv p s) : Inv p (step p s (.create w t)) := by
  simp only [step]
  split
  · rename_i hw ht
    have hnot : ∀ j, ¬ Owns s w j := by
      intro j ho; simp [Owns, hw] at ho
    have hown : ∀ w' j, Owns { s with dir := upd s.dir (.tmp t) (some s.next), ino := upd s.ino s.next [],
                                      next := s.next + 1, wst := upd s.wst w (.opened t s.next 0) } w' j →
        (w' = w ∧ j = s.next) ∨ (w' ≠ w ∧ Owns s w' j) := by
      intro w' j ho
      simp only [Owns] at ho ⊢
      by_cases hww : w' = w
      · subst hww
        left
        simp at ho
        exact ⟨rfl, ho.symm⟩
      · right; exact ⟨hww, by simpa [upd, hww] using ho⟩
    have hkey : ∀ k, upd s.dir (.tmp t) (some s.next) (.key k) = s.dir (.key k) := by
      intro k; simp [upd]
    constructor
    · intro k j hk
      simp only [hkey] at hk
      obtain ⟨w0, h1, h2, h3, h4, h5, h6⟩ := h.key_sealed k j hk
      have hj : j ≠ s.next := by omega
      have hw0 : w0 ≠ w := fun e => by subst e; simp [hw] at h4
      refine ⟨w0, h1, h2, by simpa [upd, hj] using h3, by simp [upd, hw0, h4], ?_, by simp; omega⟩
      intro w' ho
      rcases hown w' j ho with ⟨_, e⟩ | ⟨_, ho'⟩
      · exact hj e
      · exact h5 w' ho'
    · intro k hk
      simp only [hkey] at hk
      exact h.cur_none k hk
    · intro w' j ho
      rcases hown w' j ho with ⟨_, e⟩ | ⟨_, ho'⟩
      · simp [e]
      · have := h.own_lt w' j ho'; simp; omega
    · intro w1 w2 j h1 h2
      rcases hown w1 j h1 with ⟨e1, e⟩ | ⟨_, ho1⟩ <;> rcases hown w2 j h2 with ⟨e2, e'⟩ | ⟨_, ho2⟩
      · rw [e1, e2]
      · have := h.own_lt w2 j ho2; omega
      · have := h.own_lt w1 j ho1; omega
      · exact h.own_inj w1 w2 j ho1 ho2
    · intro w' t' j off' hw'
      by_cases hww : w' = w
      · subst hww
        simp at hw'
        obtain ⟨rfl, rfl, rfl⟩ := hw'
        simp [upd]
      · simp [upd, hww] at hw'
        have hj : j ≠ s.next := by
          have := h.own_lt w' j (Or.inl ⟨t', off', hw'⟩); omega
        simpa [upd, hj] using h.opened_prefix w' t' j off' hw'
    · intro w' t' j hw'
      by_cases hww : w' = w
      · subst hww; simp at hw'
      · simp [upd, hww] at hw'
        have hj : j ≠ s.next := by
          have := h.own_lt w' j (Or.inr ⟨t', hw'⟩); omega
        simpa [upd, hj] using h.closed_full w' t' j hw'
    · intro r j buf snap hr
      obtain ⟨h1, hlt, w0, h2⟩ := h.reading_ok r j buf snap hr
      have hj : j ≠ s.next := by omega
      refine ⟨?_, by simp; omega, w0, by simpa [upd, hj] using h2⟩
      intro w' ho
      rcases hown w' j ho with ⟨_, e⟩ | ⟨_, ho'⟩
      · exact hj e
      · exact h1 w' ho'
    · exact h.finished_ok
  · exact h

theorem inv_close (p : Prog) (s : Sys) (w : Nat) (h : Inv p s) : Inv p (step p s (.close w)) := by
  simp only [step]
  split
  · rename_i t i off hw
    split
    · rename_i hoff
      have hown_w : Owns s w i := Or.inl ⟨t, off, hw⟩
      have hown : ∀ w' j, Owns { s with wst := upd s.wst w (.closed t i) } w' j → Owns s w' j := by
        intro w' j ho
        simp only [Owns] at ho ⊢
        by_cases hww : w' = w
        · subst hww
          simp at ho
          subst ho
          exact Or.inl ⟨t, off, hw⟩
        · simpa [upd, hww] using ho
      constructor
      · intro k j hk
        obtain ⟨w0, h1, h2, h3, h4, h5, h6⟩ := h.key_sealed k j hk
        have hw0 : w0 ≠ w := fun e => by subst e; simp [hw] at h4
        exact ⟨w0, h1, h2, h3, by simp [upd, hw0, h4], fun w' ho => h5 w' (hown w' j ho), h6⟩
      · exact h.cur_none
      · intro w' j ho; exact h.own_lt w' j (hown w' j ho)
      · intro w1 w2 j h1 h2; exact h.own_inj w1 w2 j (hown _ _ h1) (hown _ _ h2)
      · intro w' t' j off' hw'
        by_cases hww : w' = w
        · subst hww; simp at hw'
        · simp [upd, hww] at hw'; exact h.opened_prefix w' t' j off' hw'
      · intro w' t' j hw'
        by_cases hww : w' = w
        · subst hww
          simp at hw'
          obtain ⟨e1, e2⟩ := hw'
          have := (h.opened_prefix w' t i off hw).1
          first
            | rw [← e2, this, hoff]; simp
            | rw [e2, this, hoff]; simp
        · simp [upd, hww] at hw'; exact h.closed_full w' t' j hw'
      · intro r j buf snap hr
        obtain ⟨h1, h2⟩ := h.reading_ok r j buf snap hr
        exact ⟨fun w' ho => h1 w' (hown w' j ho), h2⟩
      · exact h.finished_ok
    · exact h
  · exact h

theorem inv_ropen (p : Prog) (s : Sys) (r : Nat) (h : Inv p s) : Inv p (step p s (.ropen r)) := by
  simp only [step]
  split
  · rename_i hr
    split
    · rename_i hk
      constructor
      · exact h.key_sealed
      · exact h.cur_none
      · exact h.own_lt
      · exact h.own_inj
      · exact h.opened_prefix
      · exact h.closed_full
      · intro r' j buf snap hr'
        by_cases hrr : r' = r
        · subst hrr; simp at hr'
        · simp [upd, hrr] at hr'; exact h.reading_ok r' j buf snap hr'
      · intro r' b snap hr'
        by_cases hrr : r' = r
        · subst hrr; simp at hr'
        · simp [upd, hrr] at hr'; exact h.finished_ok r' b snap hr'
    · rename_i i hk
      constructor
      · exact h.key_sealed
      · exact h.cur_none
      · exact h.own_lt
      · exact h.own_inj
      · exact h.opened_prefix
      · exact h.closed_full
      · intro r' j buf snap hr'
        by_cases hrr : r' = r
        · subst hrr
          simp at hr'
          obtain ⟨rfl, rfl, rfl⟩ := hr'
          obtain ⟨w0, h1, h2, h3, h4, h5, h6⟩ := h.key_sealed _ _ hk
          exact ⟨h5, h6, w0, h1, h2, h3, by simp⟩
        · simp [upd, hrr] at hr'; exact h.reading_ok r' j buf snap hr'
      · intro r' b snap hr'
        by_cases hrr : r' = r
        · subst hrr; simp at hr'
        · simp [upd, hrr] at hr'; exact h.finished_ok r' b snap hr'
  · exact h

/-- reading on from a prefix of `l` gives a longer prefix of `l` -/
theorem prefix_extend {α} (l buf : List α) (m : Nat) (hb : buf = l.take buf.length) :
    buf ++ (l.drop buf.length).take m = l.take (buf ++ (l.drop buf.length).take m).length := by
  apply List.prefix_iff_eq_take.1
  have h1 : buf ++ (l.drop buf.length).take m <+: buf ++ l.drop buf.length :=
    (List.prefix_append_right_inj buf).2 (List.take_prefix _ _)
  have h2 : buf ++ l.drop buf.length = l := by
    have := List.take_append_drop buf.length l
    rw [← hb] at this
    exact this
  rw [h2] at h1
  exact h1

theorem inv_rread (p : Prog) (s : Sys) (r n : Nat) (h : Inv p s) : Inv p (step p s (.rread r n)) := by
  simp only [step]
  split
  · rename_i i buf snap hr
    obtain ⟨g1, glt, w0, g2, g3, g4, g5⟩ := h.reading_ok r i buf snap hr
    split
    · rename_i hchunk
      constructor
      · exact h.key_sealed
      · exact h.cur_none
      · exact h.own_lt
      · exact h.own_inj
      · exact h.opened_prefix
      · exact h.closed_full
      · intro r' j buf' snap' hr'
        by_cases hrr : r' = r
        · subst hrr; simp at hr'
        · simp [upd, hrr] at hr'; exact h.reading_ok r' j buf' snap' hr'
      · intro r' b snap' hr'
        by_cases hrr : r' = r
        · subst hrr
          simp at hr'
          obtain ⟨rfl, rfl⟩ := hr'
          refine ⟨w0, g2, g3, ?_⟩
          -- nothing left to read: the buffer is the whole file
          rw [g4] at hchunk
          have hd : (p.wdata w0).drop buf.length = [] := by
            cases hdr : (p.wdata w0).drop buf.length with
            | nil => rfl
            | cons a l => rw [hdr] at hchunk; simp at hchunk
          have hle : (p.wdata w0).length ≤ buf.length := by
            simpa using hd
          rw [g5]
          exact List.take_of_length_le hle
        · simp [upd, hrr] at hr'; exact h.finished_ok r' b snap' hr'
    · constructor
      · exact h.key_sealed
      · exact h.cur_none
      · exact h.own_lt
      · exact h.own_inj
      · exact h.opened_prefix
      · exact h.closed_full
      · intro r' j buf' snap' hr'
        by_cases hrr : r' = r
        · subst hrr
          simp at hr'
          obtain ⟨rfl, rfl, rfl⟩ := hr'
          refine ⟨g1, glt, w0, g2, g3, g4, ?_⟩
          rw [g4]
          exact prefix_extend (p.wdata w0) buf (n + 1) g5
        · simp [upd, hrr] at hr'; exact h.reading_ok r' j buf' snap' hr'
      · intro r' b snap' hr'
        by_cases hrr : r' = r
        · subst hrr; simp at hr'
        · simp [upd, hrr] at hr'; exact h.finished_ok r' b snap' hr'
  · exact h

/-- a failed write: the temp file is removed, the writer gives up; nothing else is touched -/
theorem inv_wfail (p : Prog) (s : Sys) (w n : Nat) (h : Inv p s) : Inv p (step p s (.wfail w n)) := by
  simp only [step]
  split
  · rename_i t i off hw
    have hown_w : Owns s w i := Or.inl ⟨t, off, hw⟩
    have hown : ∀ w' j, Owns { s with ino := upd s.ino i ((p.wdata w).take (min (off + n) (p.wdata w).length)),
                                      dir := upd s.dir (.tmp t) none,
                                      wst := upd s.wst w .dead } w' j → Owns s w' j ∧ w' ≠ w := by
      intro w' j ho
      simp only [Owns] at ho ⊢
      by_cases hww : w' = w
      · subst hww; simp at ho
      · exact ⟨by simpa [upd, hww] using ho, hww⟩
    have hkey : ∀ k, upd s.dir (.tmp t) none (.key k) = s.dir (.key k) := by
      intro k; simp [upd]
    constructor
    · intro k j hk
      simp only [hkey] at hk
      obtain ⟨w0, h1, h2, h3, h4, h5, h6⟩ := h.key_sealed k j hk
      have hji : j ≠ i := fun e => h5 w (e ▸ hown_w)
      have hw0 : w0 ≠ w := fun e => by subst e; simp [hw] at h4
      exact ⟨w0, h1, h2, by simpa [upd, hji] using h3, by simp [upd, hw0, h4],
        fun w' ho => h5 w' (hown w' j ho).1, h6⟩
    · intro k hk
      simp only [hkey] at hk
      exact h.cur_none k hk
    · intro w' j ho; exact h.own_lt w' j (hown w' j ho).1
    · intro w1 w2 j h1 h2; exact h.own_inj w1 w2 j (hown _ _ h1).1 (hown _ _ h2).1
    · intro w' t' j off' hw'
      by_cases hww : w' = w
      · subst hww; simp at hw'
      · simp [upd, hww] at hw'
        have hj : j ≠ i := fun e => hww (h.own_inj w' w i (e ▸ Or.inl ⟨t', off', hw'⟩) hown_w)
        simpa [upd, hj] using h.opened_prefix w' t' j off' hw'
    · intro w' t' j hw'
      by_cases hww : w' = w
      · subst hww; simp at hw'
      · simp [upd, hww] at hw'
        have hj : j ≠ i := fun e => hww (h.own_inj w' w i (e ▸ Or.inr ⟨t', hw'⟩) hown_w)
        simpa [upd, hj] using h.closed_full w' t' j hw'
    · intro r j buf snap hr
      obtain ⟨h1, hlt, w0, h2⟩ := h.reading_ok r j buf snap hr
      have hji : j ≠ i := fun e => h1 w (e ▸ hown_w)
      exact ⟨fun w' ho => h1 w' (hown w' j ho).1, hlt, w0, by simpa [upd, hji] using h2⟩
    · exact h.finished_ok
  · exact h

/-- the cleanup after a failure: the temp file is removed, the writer gives up; nothing else is touched -/
theorem inv_giveup (p : Prog) (s : Sys) (w : Nat) (h : Inv p s) : Inv p (step p s (.giveup w)) := by
  simp only [step]
  have key : ∀ (t i : Nat), Owns s w i →
      Inv p { s with dir := upd s.dir (.tmp t) none, wst := upd s.wst w .dead } := by
    intro t i hown_w
    have hown : ∀ w' j, Owns { s with dir := upd s.dir (.tmp t) none,
                                      wst := upd s.wst w .dead } w' j → Owns s w' j ∧ w' ≠ w := by
      intro w' j ho
      simp only [Owns] at ho ⊢
      by_cases hww : w' = w
      · subst hww; simp at ho
      · exact ⟨by simpa [upd, hww] using ho, hww⟩
    have hkey : ∀ k, upd s.dir (.tmp t) none (.key k) = s.dir (.key k) := by
      intro k; simp [upd]
    constructor
    · intro k j hk
      simp only [hkey] at hk
      obtain ⟨w0, h1, h2, h3, h4, h5, h6⟩ := h.key_sealed k j hk
      have hw0 : w0 ≠ w := by
        intro e; subst e
        rcases hown_w with ⟨t', off', hw⟩ | ⟨t', hw⟩ <;> simp [hw] at h4
      exact ⟨w0, h1, h2, h3, by simp [upd, hw0, h4],
        fun w' ho => h5 w' (hown w' j ho).1, h6⟩
    · intro k hk
      simp only [hkey] at hk
      exact h.cur_none k hk
    · intro w' j ho; exact h.own_lt w' j (hown w' j ho).1
    · intro w1 w2 j h1 h2; exact h.own_inj w1 w2 j (hown _ _ h1).1 (hown _ _ h2).1
    · intro w' t' j off' hw'
      by_cases hww : w' = w
      · subst hww; simp at hw'
      · simp [upd, hww] at hw'
        exact h.opened_prefix w' t' j off' hw'
    · intro w' t' j hw'
      by_cases hww : w' = w
      · subst hww; simp at hw'
      · simp [upd, hww] at hw'
        exact h.closed_full w' t' j hw'
    · intro r j buf snap hr
      obtain ⟨h1, hlt, w0, h2⟩ := h.reading_ok r j buf snap hr
      exact ⟨fun w' ho => h1 w' (hown w' j ho).1, hlt, w0, h2⟩
    · exact h.finished_ok
  split
  · rename_i t i off hw
    exact key t i (Or.inl ⟨t, off, hw⟩)
  · rename_i t i hw
    exact key t i (Or.inr ⟨t, hw⟩)
  · exact h

theorem inv_step (p : Prog) (s : Sys) (e : Event) (h : Inv p s) : Inv p (step p s e) := by
  cases e with
  | create w t => exact inv_create p s w t h
  | write w n => exact inv_write p s w n h
  | wfail w n => exact inv_wfail p s w n h
  | close w => exact inv_close p s w h
  | rename w => exact inv_rename p s w h
  | giveup w => exact inv_giveup p s w h
  | crash w => exact inv_crash p s w h
  | ropen r => exact inv_ropen p s r h
  | rread r n => exact inv_rread p s r n h

end NotationModel.C14

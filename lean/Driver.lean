/-
Line-protocol driver: `driver <Cxx>` reads one JSON object `{"input":…,"obs":…}` per
line on stdin and writes one verdict per line on stdout (see `judgeWith`).
Anything that cannot be decoded yields `{"bad-op": reason}` - never a default value.
-/
import NotationModel.Model.C01
import NotationModel.Model.C02
import NotationModel.Model.C03
import NotationModel.Model.C04
import NotationModel.Model.C05
import NotationModel.Model.C06
import NotationModel.Model.C07
import NotationModel.Model.C08
import NotationModel.Model.C09
import NotationModel.Model.C10
import NotationModel.Model.C11
import NotationModel.Model.C12
import NotationModel.Model.C13
import NotationModel.Model.C14
import NotationModel.Model.C15
import NotationModel.Model.C16
import NotationModel.Model.C17
import NotationModel.Model.C18
import NotationModel.Model.C19
import NotationModel.Model.C20
open Lean

def handlers : List (String × (Json → Except String Json)) :=
  [ ("C01", NotationModel.C01.judge),
    ("C02", NotationModel.C02.judge),
    ("C03", NotationModel.C03.judge),
    ("C04", NotationModel.C04.judge),
    ("C05", NotationModel.C05.judge),
    ("C06", NotationModel.C06.judge),
    ("C07", NotationModel.C07.judge),
    ("C08", NotationModel.C08.judge),
    ("C09", NotationModel.C09.judge),
    ("C10", NotationModel.C10.judge),
    ("C11", NotationModel.C11.judge),
    ("C12", NotationModel.C12.judge),
    ("C13", NotationModel.C13.judge),
    ("C14", NotationModel.C14.judge),
    ("C15", NotationModel.C15.judge),
    ("C16", NotationModel.C16.judge),
    ("C17", NotationModel.C17.judge),
    ("C18", NotationModel.C18.judge),
    ("C19", NotationModel.C19.judge),
    ("C20", NotationModel.C20.judge) ]

partial def loop (h : IO.FS.Stream) (out : IO.FS.Stream) (f : Json → Except String Json) : IO Unit := do
  let line ← h.getLine
  if line.isEmpty then return ()
  let reply := match Json.parse line >>= f with
    | .ok j => j.compress
    | .error e => (Json.mkObj [("bad-op", Json.str e)]).compress
  out.putStrLn reply
  loop h out f

def main (args : List String) : IO UInt32 := do
  match args with
  | [prop] =>
    match handlers.lookup prop with
    | some f =>
      let out ← IO.getStdout
      loop (← IO.getStdin) out f
      out.flush
      return 0
    | none => IO.eprintln s!"unknown property {prop}"; return 2
  | _ => IO.eprintln "usage: driver <Cxx> < cases.jsonl"; return 2

/-
Line-protocol driver: `driver <Cxx>` reads one JSON object `{"input":…,"obs":…}` per
line on stdin and writes one verdict per line on stdout (see `judgeWith`).
Anything that cannot be decoded yields `{"bad-op": reason}` - never a default value.
-/
import NotationModel.Model.C10
open Lean

def handlers : List (String × (Json → Except String Json)) :=
  [ ("C10", NotationModel.C10.judge) ]

partial def loop (h : IO.FS.Stream) (out : IO.FS.Stream) (f : Json → Except String Json) : IO Unit := do
  let line ← h.getLine
  if line.isEmpty then return ()
  let reply := match Json.parse line >>= f with
    | .ok j => j.compress
    | .error e => (Json.mkObj [("bad-op", Json.str e)]).compress
  out.putStrLn reply
  loop h out f

def main (args : List String) : IO UInt32 := do
  match args with
  | [prop] =>
    match handlers.lookup prop with
    | some f =>
      let out ← IO.getStdout
      loop (← IO.getStdin) out f
      out.flush
      return 0
    | none => IO.eprintln s!"unknown property {prop}"; return 2
  | _ => IO.eprintln "usage: driver <Cxx> < cases.jsonl"; return 2

/- Root of the library: what the driver needs. The property theorems (Props/Cxx.lean) are built
   one module per property (`lake build NotationModel.Props.Cxx`, see setup.sh and check): they are
   never imported together, so the hand-written type modules of different properties
   (Src/TypesCxx.lean) may define the same Go library function under the same name. -/
import NotationModel.Basic
import NotationModel.Model.C01
import NotationModel.Model.C02
import NotationModel.Model.C03
import NotationModel.Model.C04
import NotationModel.Model.C05
import NotationModel.Model.C06
import NotationModel.Model.C07
import NotationModel.Model.C08
import NotationModel.Model.C09
import NotationModel.Model.C10
import NotationModel.Model.C11
import NotationModel.Model.C12
import NotationModel.Model.C13
import NotationModel.Model.C14
import NotationModel.Model.C15
import NotationModel.Model.C16
import NotationModel.Model.C17
import NotationModel.Model.C18
import NotationModel.Model.C19
import NotationModel.Model.C20

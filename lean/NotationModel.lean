import NotationModel.Basic
import NotationModel.Model.C10

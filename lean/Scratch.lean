import NotationModel.Props.C02
import NotationModel.Lemmas.C02Process
open NotationModel.Src NotationModel.Src.verifier NotationModel.Src.«notation» NotationModel.Src.pluginframework
open NotationModel.Src.signature
open NotationModel.C02 NotationModel.C02.Process NotationModel.C02.Tie

namespace GoLite
theorem forIn_appendUnless {α : Type} (l : List α) (p : α → Bool) (acc : List α) :
    (forIn l acc (fun a r => if p a = true then (pure (ForInStep.yield r) : Id _) else pure (ForInStep.yield (r ++ [a])))) =
      pure (acc ++ l.filter (fun a => !p a)) := by
  induction l generalizing acc with
  | nil => simp
  | cons a l ih =>
    rw [List.forIn_cons]
    by_cases hp : p a = true
    · simp only [hp, if_true, pure_bind, ih]; simp [hp]
    · simp only [hp, Bool.false_eq_true, if_false, pure_bind, ih]
      simp [hp]
end GoLite

namespace NotationModel.C02.Tie
section Process

/-- the other arguments of `processSignature`, handed on to the oracles -/
structure Args where
  sigBlob : SigBlob
  mt : String
  pn : String
  tis : List String
  tss : List String
  sv : trustpolicy.SignatureVerification
  pc : GoLite.Map String String

def keyOf (a : Attribute) : String := match a.Key with | .str k => k | .other _ => ""
def strOf : AVal → Option String | .str s => some s | .other _ => none

/-- the verification capabilities in the plugin's metadata, as `processSignature` filters them -/
def verifCaps (md : GetMetadataResponse) : List String :=
  md.Capabilities.filter (fun c => c == CapabilityRevocationCheckVerifier || c == CapabilityTrustedIdentityVerifier)

/-- the scenario of the model (`Input`) that a call of `processSignature` amounts to: every field is what the
corresponding oracle answers, each asked with the arguments the Go code hands it at that point (the outcome as
it stands then) -/
def toInput (env : Env) (v : Verifier) (a : Args) (o0 : Outcome) (ec : EnvelopeContent) (rI : ValidationResult) : Input :=
  let si := ec.SignerInfo
  let lvl := o0.VerificationLevel
  let enf := lvl.Enforcement
  let mk (rs : List ValidationResult) : Outcome := { EnvelopeContent := some ec, VerificationLevel := lvl, VerificationResults := rs }
  let name := (getVerificationPlugin si).1
  let minVer := (getVerificationPluginMinVersion env.isValidSemver si).1
  let got := (GoLite.deref v.pluginManager).Get name
  let md := (GoLite.deref got.1).GetMetadata { PluginConfig := a.pc }
  let caps := verifCaps md.1
  let pcaps := if classifyPlugin si = .named then caps else []
  let ld := env.loadX509TrustStores si.SignedAttributes.SigningScheme a.pn a.tss v.trustStore
  let rA0 : ValidationResult :=
    if ld.2.isSome then { «Type» := trustpolicy.TypeAuthenticity, Action := GoLite.Map.get enf trustpolicy.TypeAuthenticity, Error := ld.2 }
    else env.verifyAuthenticity ld.1 (mk [rI])
  let ierr := env.verifyX509TrustedIdentities a.pn a.tis si.CertificateChain
  let rA : ValidationResult := if !pcaps.contains CapabilityTrustedIdentityVerifier && ierr.isSome then { rA0 with Error := ierr } else rA0
  let rE := env.verifyExpiry (mk [rI, rA])
  let rT := env.verifyAuthenticTimestamp a.pn a.tss a.sv v.trustStore v.revocationTimestampingValidator (mk [rI, rA, rE])
  let rR := v.verifyRevocation (mk [rI, rA, rE, rT])
  let revSkipped := GoLite.Map.get enf trustpolicy.TypeRevocation == trustpolicy.ActionSkip
  let toVerify := pcaps.filter (fun c => !(revSkipped && c == CapabilityRevocationCheckVerifier))
  let ex := env.executePlugin got.1 toVerify (some ec) a.tis a.pc
  { level := "", override := [],
    pluginAttr := classifyPlugin si,
    minVerAttr := classifyMinVer env.isValidSemver si,
    extAttrs := (getNonPluginExtendedCriticalAttributes si).map (fun x => { key := keyOf x, critical := x.Critical }),
    pluginState := if v.pluginManager.isNone then .managerNil else if got.2.isSome then .notInstalled
      else if md.2.isSome then .metadataError else .installed,
    pluginVersion := if !env.isValidSemver md.1.Version then .invalidSemver
      else if !env.isRequiredVerificationPluginVer md.1.Version minVer then .tooOld else .ok,
    capIdentity := caps.contains CapabilityTrustedIdentityVerifier,
    capRevocation := caps.contains CapabilityRevocationCheckVerifier,
    trust := if ld.2.isSome then .storeError else if rA0.Error.isSome then .notFound else .found,
    identityMatch := ierr.isNone,
    wildcardIdentity := false,
    expired := rE.Error.isSome,
    timestampOk := rT.Error.isNone,
    revocation := if rR.Error.isSome then .revoked else .ok,
    pluginCallError := ex.2.isSome,
    processed := ex.1.ProcessedAttributes.filterMap strOf,
    verdictIdentity := verdictOf ex.1 CapabilityTrustedIdentityVerifier,
    verdictRevocation := verdictOf ex.1 CapabilityRevocationCheckVerifier }

/-- what the tie assumes of the oracles (each is a fact about a callee of `processSignature`, not about it) -/
structure Contracts (env : Env) (v : Verifier) : Prop where
  /-- every validation reports under its own type, with the action the outcome's level gives that type -/
  auth : ∀ cs o, (env.verifyAuthenticity cs o).«Type» = trustpolicy.TypeAuthenticity ∧
    (env.verifyAuthenticity cs o).Action = GoLite.Map.get o.VerificationLevel.Enforcement trustpolicy.TypeAuthenticity
  expiry : ∀ o, (env.verifyExpiry o).«Type» = trustpolicy.TypeExpiry ∧
    (env.verifyExpiry o).Action = GoLite.Map.get o.VerificationLevel.Enforcement trustpolicy.TypeExpiry
  timestamp : ∀ p t s x y o, (env.verifyAuthenticTimestamp p t s x y o).«Type» = trustpolicy.TypeAuthenticTimestamp ∧
    (env.verifyAuthenticTimestamp p t s x y o).Action = GoLite.Map.get o.VerificationLevel.Enforcement trustpolicy.TypeAuthenticTimestamp
  revocation : ∀ o, (v.verifyRevocation o).«Type» = trustpolicy.TypeRevocation ∧
    (v.verifyRevocation o).Action = GoLite.Map.get o.VerificationLevel.Enforcement trustpolicy.TypeRevocation
  /-- a plugin manager that reports no error hands out a plugin -/
  got : ∀ m n, v.pluginManager = some m → (m.Get n).2 = none → (m.Get n).1.isSome = true
  /-- no minimum version demanded: every valid version will do (`semver.Compare(v, "v") = +1`) -/
  noMin : ∀ ver, env.isValidSemver ver = true → env.isRequiredVerificationPluginVer ver "" = true


/-- the plugin's metadata as `processSignature` obtains it -/
def mdOf (v : Verifier) (a : Args) (ec : EnvelopeContent) : GetMetadataResponse :=
  ((GoLite.deref ((GoLite.deref v.pluginManager).Get (getVerificationPlugin ec.SignerInfo).1).1).GetMetadata { PluginConfig := a.pc }).1

/-- the plugin lists each verification capability at most once, trusted identity first (the shapes the
model's two capability flags can express) -/
def NormalCaps (l : List String) : Prop :=
  l = (if l.contains CapabilityTrustedIdentityVerifier then [CapabilityTrustedIdentityVerifier] else []) ++
      (if l.contains CapabilityRevocationCheckVerifier then [CapabilityRevocationCheckVerifier] else [])

theorem resOf_auth (env : Env) (v : Verifier) (hc : Contracts env v) (cs : List x509.Certificate) (o : Outcome) :
    resOf (env.verifyAuthenticity cs o) = ⟨Facts.typeAuthenticity, Enf.get o.VerificationLevel.Enforcement Facts.typeAuthenticity, (env.verifyAuthenticity cs o).Error.isSome⟩ := by
  simp [resOf, (hc.auth cs o).1, (hc.auth cs o).2, typeAuth_eq, mapGet_eq_enfGet]
theorem resOf_expiry (env : Env) (v : Verifier) (hc : Contracts env v) (o : Outcome) :
    resOf (env.verifyExpiry o) = ⟨Facts.typeExpiry, Enf.get o.VerificationLevel.Enforcement Facts.typeExpiry, (env.verifyExpiry o).Error.isSome⟩ := by
  have : trustpolicy.TypeExpiry = Facts.typeExpiry := by decide
  simp [resOf, (hc.expiry o).1, (hc.expiry o).2, this, mapGet_eq_enfGet]
theorem resOf_timestamp (env : Env) (v : Verifier) (hc : Contracts env v) (p : String) (t : List String) (s : trustpolicy.SignatureVerification) (x y : Nat) (o : Outcome) :
    resOf (env.verifyAuthenticTimestamp p t s x y o) = ⟨Facts.typeAuthenticTimestamp, Enf.get o.VerificationLevel.Enforcement Facts.typeAuthenticTimestamp, (env.verifyAuthenticTimestamp p t s x y o).Error.isSome⟩ := by
  have : trustpolicy.TypeAuthenticTimestamp = Facts.typeAuthenticTimestamp := by decide
  simp [resOf, (hc.timestamp p t s x y o).1, (hc.timestamp p t s x y o).2, this, mapGet_eq_enfGet]
theorem resOf_revocation (env : Env) (v : Verifier) (hc : Contracts env v) (o : Outcome) :
    resOf (v.verifyRevocation o) = ⟨Facts.typeRevocation, Enf.get o.VerificationLevel.Enforcement Facts.typeRevocation, (v.verifyRevocation o).Error.isSome⟩ := by
  simp [resOf, (hc.revocation o).1, (hc.revocation o).2, typeRev_eq, mapGet_eq_enfGet]

theorem trimSpace_empty : GoLite.trimSpace "" = "" := by decide

theorem source_processSignature_refines_model (env : Env) (v : Verifier) (a : Args) (o0 : Outcome)
    (ec : EnvelopeContent) (rI : ValidationResult)
    (hc : Contracts env v)
    (hI : env.verifyIntegrity a.sigBlob a.mt o0 = (some ec, rI)) (hIok : rI.Error = none) (hIty : isAuth rI = false)
    (hres : o0.VerificationResults = [])
    (hcaps : NormalCaps (verifCaps (mdOf v a ec))) :
    (processSignature env v a.sigBlob a.mt a.pn a.tis a.tss a.sv a.pc o0).1.isNone =
        (process (toInput env v a o0 ec rI) o0.VerificationLevel.Enforcement).accepted ∧
    ((processSignature env v a.sigBlob a.mt a.pn a.tis a.tss a.sv a.pc o0).2.VerificationResults.drop 1).map resOf =
        (process (toInput env v a o0 ec rI) o0.VerificationLevel.Enforcement).results := by
  have hgp := source_getVerificationPlugin_refines_model ec.SignerInfo
  have hgm := source_getVerificationPluginMinVersion_refines_model env.isValidSemver ec.SignerInfo
  unfold processSignature
  simp only [Id.run]
  simp only [GoLite.forIn_appendIf, GoLite.forIn_appendUnless, pure_bind]
  simp only [hI, hIok, hres, Option.isSome_none, Bool.false_eq_true, if_false, GoLite.deref, Option.getD_some, List.nil_append]
  cases hpa : classifyPlugin ec.SignerInfo with
  | absent =>
    have h1 := hgp.1 hpa
    have hne : (some errExtendedAttributeNotExist != some errExtendedAttributeNotExist) = false := by decide
    have hee : (("" : String) != "") = false := by decide
    simp only [h1, hne, hee, Option.isSome_some, Bool.and_false, Bool.false_eq_true, if_false]
    simp only [isCriticalFailure_eq, resOf_auth env v hc, resOf_expiry env v hc, resOf_timestamp env v hc, resOf_revocation env v hc]
    unfold process processE toInput
    simp only [hpa]
    simp [discover, authStage, expiryStage, timestampStage, revocationStage, pluginStage, capsOf, St.push, bind, Except.bind]
    trace_state
    sorry
  | _ => sorry

end Process
end NotationModel.C02.Tie

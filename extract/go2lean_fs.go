package main

// go2lean_fs.go - a second, small translator for EFFECTFUL PROTOCOL functions (DESIGN.md 10.5):
// straight-line Go that talks to the operating system, leaves through early returns, and cleans
// up in `defer`red calls that read a NAMED result - `file.WriteFile` is the example. go2lean.go
// treats every callee as a pure oracle, which loses the ORDER of the calls (a second `Close` on
// the same file cannot answer differently) and does not cover `defer`. Here the translation
// target is a state monad `FS` (hand-written in lean/NotationModel/Src/TypesC14.lean): every call
// of a callee configured as an effect is performed with `<-`, so the sequence of calls with their
// arguments is part of the meaning of the translated text, on every path, including the cleanup.
//
// Subset (anything else is a hard failure of the family, never a silently different model):
//   x, err := f(..)   _, err = f(..)   f(..)                 calls of configured callees
//   if [init;] cond { .. } [else { .. }]                      cond over ==/!= nil, ==/!= , &&, ||, !
//   return [e, ..]                                            also the bare return of named results
//   defer f(..)        defer func() { .. }()                  at the top level of the function only
//   fmt.Errorf("..")   fmt.Errorf("..%w", .., err)            the kind of the wrapped error is kept
// `defer` is translated by its meaning: the statements after it become an inner block whose
// `return e` yields the value of the results; then the deferred call runs (it may READ the named
// results, not assign them - refused); then the function returns. Several defers nest, which gives
// Go's last-in-first-out order. Arguments of a deferred call are evaluated when the defer
// statement runs; the translator therefore only accepts arguments built from variables that are
// never assigned again and pure calls on them. Panics are not modelled (C12's business).
// Go's scoping (`if _, err := ..` introduces a new `err`) is kept by renaming: every declaration
// gets a Lean name of its own (`err`, `err_1`, ..), so no Lean `let` ever shadows a live variable.

import (
	"fmt"
	"go/ast"
	"go/token"
	"go/types"
	"strconv"
	"strings"
)

type fsCallee struct {
	lean   string // Lean function; the receiver (for methods) is its first argument
	effect bool   // performed in the monad (`<-`), else a pure function
	nres   int    // number of results
}

type fsTarget struct {
	file, recv, fn string
	leanName       string
	params         string              // Lean binders
	ret            string              // Lean result type (without the monad)
	funcs          map[string]fsCallee // package-level callees by Go text ("os.CreateTemp")
	methods        map[string]fsCallee // methods on local variables by method name ("Close")
	dropCalls      []string            // callees without effect on behaviour (hooks, logging)
	monad          string              // name of the monad (default FS)
	dropArgs       []string            // identifiers dropped from every argument list (context.Context values)
	resultTypes    []string            // Lean types of NAMED results that are not errors, in order of appearance
	zeroValues     map[string]string   // Go type text -> Lean text of its zero value WITH type ascription (`var x T`, `T{}`)
	literals       map[string]string   // Go type text of a composite literal -> Lean text (the fields are NOT translated:
	// an abstraction, e.g. an error value of which only the kind matters)
	asserts map[string]string // interface type text -> Lean function: `v, ok := x.(T)` becomes `let (v, ok) := f x`
	idents  map[string]string // package-level identifiers (sentinel errors ..) by Go name -> Lean text
	convs   map[string]string // conversions `T(x)` by Go type text -> Lean function
	asFuncs map[string]string // Go type text of `var v T` -> Lean function f : Option Err -> Option _ :
	// `errors.As(e, &v)` reads `(f e).isSome`, and every later use of v reads `(f e)` (v must have no other assignment)
}

type fsScope struct {
	names  map[string]string
	parent *fsScope
}

type fsTr struct {
	t        *fsTarget
	consts   map[string]string
	used     map[string]int // Lean base name -> number of declarations so far
	scope    *fsScope
	named    []string       // named results (Go names)
	assigned map[string]int // Go identifier -> number of assignments after its declaration
	usedCons map[string]bool
	out      strings.Builder
	hasDefer bool
	mutable  map[string]bool   // Lean names introduced with `let mut`
	varTypes map[string]string // Go name -> Go type text of `var x T`
	asSubst  map[string]string // Go name -> Lean text standing for it after errors.As(e, &name)
	loggers  map[string]bool   // locals bound to the result of a dropped call
	doDepth  int               // nesting of the inner blocks introduced for `defer`
	depthOf  map[string]int    // Lean name of a mutable -> doDepth at its declaration
}

func (g *fsTr) markMutable(l string) {
	g.mutable[l] = true
	g.depthOf[l] = g.doDepth
}

func (g *fsTr) monad() string {
	if g.t.monad != "" {
		return g.t.monad
	}
	return "FS"
}

func (g *fsTr) isDroppedArg(e ast.Expr) bool {
	if id, ok := e.(*ast.Ident); ok {
		for _, d := range g.t.dropArgs {
			if d == id.Name {
				return true
			}
		}
	}
	return false
}

func (g *fsTr) fail(n ast.Node, format string, a ...any) {
	fail("%s: %s.%s: line %d: %s", g.t.file, g.t.recv, g.t.fn, fset.Position(n.Pos()).Line, fmt.Sprintf(format, a...))
}

func (g *fsTr) line(ind int, s string) {
	g.out.WriteString(strings.Repeat("  ", ind) + s + "\n")
}

func (g *fsTr) push() { g.scope = &fsScope{names: map[string]string{}, parent: g.scope} }
func (g *fsTr) pop()  { g.scope = g.scope.parent }

func (g *fsTr) declare(name string) string {
	if name == "_" {
		return "_"
	}
	n := g.used[name]
	g.used[name] = n + 1
	lean := g2lIdent(name) // a Go name may be a Lean keyword (`in`, `from`, `at` ..)
	if n > 0 {
		lean = fmt.Sprintf("%s_%d", name, n)
	}
	g.scope.names[name] = lean
	return lean
}

// fresh hands out a Lean name without binding it
func (g *fsTr) fresh(name string) string {
	n := g.used[name]
	g.used[name] = n + 1
	if n > 0 {
		return fmt.Sprintf("%s_%d", name, n)
	}
	return g2lIdent(name)
}

func (g *fsTr) lookup(id *ast.Ident) (string, bool) {
	for s := g.scope; s != nil; s = s.parent {
		if l, ok := s.names[id.Name]; ok {
			return l, true
		}
	}
	return "", false
}

func (g *fsTr) dropped(c *ast.CallExpr) bool {
	name := callName(c)
	if sel, ok := c.Fun.(*ast.SelectorExpr); ok {
		if id, ok := sel.X.(*ast.Ident); ok && g.loggers[id.Name] {
			return true
		}
	}
	for _, d := range g.t.dropCalls {
		if name == d || strings.HasPrefix(name, d+".") {
			return true
		}
	}
	return false
}

// callee resolves a call; the Lean text of the application and whether it is an effect
func (g *fsTr) call(c *ast.CallExpr) (string, fsCallee) {
	name := callName(c)
	if name == "fmt.Errorf" {
		if len(c.Args) == 0 {
			g.fail(c, "fmt.Errorf without a format")
		}
		bl, ok := c.Args[0].(*ast.BasicLit)
		if !ok || bl.Kind != token.STRING {
			g.fail(c, "fmt.Errorf with a computed format")
		}
		format, _ := strconv.Unquote(bl.Value)
		if strings.Contains(format, "%w") {
			// the %w verb's operand: count the verbs before it
			idx := 0
			for i := 0; i < len(format)-1; i++ {
				if format[i] == '%' {
					if format[i+1] == '%' {
						i++
						continue
					}
					idx++
					if format[i+1] == 'w' {
						break
					}
				}
			}
			if idx == 0 || idx >= len(c.Args) {
				g.fail(c, "cannot find the operand of %%w")
			}
			return fmt.Sprintf("(some (GoLite.wrapf %s %s))", leanStr(format), g.expr(c.Args[idx])), fsCallee{nres: 1}
		}
		return fmt.Sprintf("(some (GoLite.errorf %s))", leanStr(format)), fsCallee{nres: 1}
	}
	if name == "errors.New" {
		if bl, ok := c.Args[0].(*ast.BasicLit); ok && bl.Kind == token.STRING && len(c.Args) == 1 {
			v, _ := strconv.Unquote(bl.Value)
			return fmt.Sprintf("(some (GoLite.errorf %s))", leanStr(v)), fsCallee{nres: 1}
		}
		g.fail(c, "errors.New with a computed text")
	}
	var ce fsCallee
	var args []string
	found := false
	if ce, found = g.t.funcs[name]; !found {
		if sel, ok := c.Fun.(*ast.SelectorExpr); ok {
			if id, ok := sel.X.(*ast.Ident); ok {
				if sub, isAs := g.asSubst[id.Name]; isAs {
					if ce, found = g.t.methods[sel.Sel.Name]; found {
						args = append(args, sub)
					}
				} else if l, isLocal := g.lookup(id); isLocal {
					if ce, found = g.t.methods[sel.Sel.Name]; found {
						args = append(args, l)
					}
				}
			}
		}
	}
	if !found {
		if f, isConv := g.t.convs[name]; isConv && len(c.Args) == 1 {
			return "(" + f + " " + g.expr(c.Args[0]) + ")", fsCallee{nres: 1}
		}
		// a method on the result of a call (`info.Mode().IsRegular()`)
		if sel, ok := c.Fun.(*ast.SelectorExpr); ok {
			if inner, isCall := sel.X.(*ast.CallExpr); isCall {
				if ce, found = g.t.methods[sel.Sel.Name]; found {
					args = append(args, g.expr(inner))
				}
			}
		}
	}
	if !found {
		// a method on a value reached through fields (`d.Digest.String()`)
		if sel, ok := c.Fun.(*ast.SelectorExpr); ok {
			if _, isSel := sel.X.(*ast.SelectorExpr); isSel {
				if ce, found = g.t.methods[sel.Sel.Name]; found {
					args = append(args, g.expr(sel.X))
				}
			}
		}
	}
	if !found {
		g.fail(c, "call of %s: not a configured callee", name)
	}
	for _, a := range c.Args {
		if g.isDroppedArg(a) {
			continue
		}
		args = append(args, g.expr(a))
	}
	s := ce.lean
	if len(args) > 0 {
		s += " " + strings.Join(args, " ")
	}
	return "(" + s + ")", ce
}

func (g *fsTr) expr(e ast.Expr) string {
	switch x := e.(type) {
	case *ast.ParenExpr:
		return g.expr(x.X)
	case *ast.Ident:
		if x.Name == "nil" {
			return "none"
		}
		if x.Name == "true" || x.Name == "false" {
			return x.Name
		}
		if sub, ok := g.asSubst[x.Name]; ok {
			return sub
		}
		if l, ok := g.lookup(x); ok {
			return l
		}
		if _, ok := g.consts[x.Name]; ok {
			g.usedCons[x.Name] = true
			return x.Name
		}
		if l, ok := g.t.idents[x.Name]; ok {
			return l
		}
		g.fail(e, "identifier %s: neither a local nor a constant of the file", x.Name)
	case *ast.BasicLit:
		switch x.Kind {
		case token.STRING:
			v, _ := strconv.Unquote(x.Value)
			return leanStr(v)
		case token.INT:
			// Go spells octal / hex / binary literals its own way: print the value
			n, err := strconv.ParseInt(strings.ReplaceAll(x.Value, "_", ""), 0, 64)
			if err != nil {
				g.fail(x, "integer literal %s", x.Value)
			}
			return fmt.Sprintf("(%d : Int)", n)
		}
	case *ast.SelectorExpr:
		// a field of a local (never a package-qualified name: those only occur as callees and types)
		if root := fsRoot(x); root != nil {
			if _, ok := g.lookup(root); ok {
				return g.expr(x.X) + "." + x.Sel.Name
			}
		}
	case *ast.CompositeLit:
		ty := types.ExprString(x.Type)
		if l, ok := g.t.literals[ty]; ok {
			return l
		}
		if len(x.Elts) == 0 {
			if z, ok := g.t.zeroValues[ty]; ok {
				return z
			}
		}
	case *ast.UnaryExpr:
		if x.Op == token.NOT {
			return "(!" + g.expr(x.X) + ")"
		}
	case *ast.BinaryExpr:
		switch x.Op {
		case token.NEQ, token.EQL:
			neq := x.Op == token.NEQ
			if id, ok := x.Y.(*ast.Ident); ok && id.Name == "nil" {
				if neq {
					return "(" + g.expr(x.X) + ").isSome"
				}
				return "(" + g.expr(x.X) + ").isNone"
			}
			if id, ok := x.X.(*ast.Ident); ok && id.Name == "nil" {
				if neq {
					return "(" + g.expr(x.Y) + ").isSome"
				}
				return "(" + g.expr(x.Y) + ").isNone"
			}
			if neq {
				return "(" + g.expr(x.X) + " != " + g.expr(x.Y) + ")"
			}
			return "(" + g.expr(x.X) + " == " + g.expr(x.Y) + ")"
		case token.AND:
			return "(bitAnd " + g.expr(x.X) + " " + g.expr(x.Y) + ")"
		case token.LAND:
			return "(" + g.expr(x.X) + " && " + g.expr(x.Y) + ")"
		case token.LOR:
			return "(" + g.expr(x.X) + " || " + g.expr(x.Y) + ")"
		}
	case *ast.CallExpr:
		if callName(x) == "errors.As" && len(x.Args) == 2 {
			if u, ok := x.Args[1].(*ast.UnaryExpr); ok && u.Op == token.AND {
				if id, ok := u.X.(*ast.Ident); ok {
					f, known := g.t.asFuncs[g.varTypes[id.Name]]
					if !known {
						g.fail(x, "errors.As into %s of type %q: no asFuncs entry", id.Name, g.varTypes[id.Name])
					}
					if g.assigned[id.Name] > 0 {
						g.fail(x, "errors.As into %s, which is also assigned elsewhere", id.Name)
					}
					sub := "(" + f + " " + g.expr(x.Args[0]) + ")"
					g.asSubst[id.Name] = sub
					return sub + ".isSome"
				}
			}
			g.fail(x, "errors.As with a target that is not `&local`")
		}
		s, ce := g.call(x)
		if ce.effect {
			return "(← " + s + ")"
		}
		return s
	}
	g.fail(e, "expression %s is outside the subset", exprText(e))
	return ""
}

func fsRoot(e ast.Expr) *ast.Ident {
	for {
		switch x := e.(type) {
		case *ast.Ident:
			return x
		case *ast.SelectorExpr:
			e = x.X
		default:
			return nil
		}
	}
}

// pureExpr: no effect anywhere inside (conditions of deferred bodies may contain effects; the
// arguments of a deferred call may not)
func (g *fsTr) frozen(e ast.Expr) bool { return g.quiet(e, true) }

// effectFree: evaluating e performs no call of an effectful callee
func (g *fsTr) effectFree(e ast.Expr) bool { return g.quiet(e, false) }

func (g *fsTr) quiet(e ast.Expr, fixed bool) bool {
	ok := true
	ast.Inspect(e, func(n ast.Node) bool {
		switch x := n.(type) {
		case *ast.Ident:
			if fixed && g.assigned[x.Name] > 0 {
				ok = false
			}
		case *ast.CallExpr:
			if g.dropped(x) {
				return true
			}
			name := callName(x)
			if ce, found := g.t.funcs[name]; found && !ce.effect {
				return true
			}
			if sel, isSel := x.Fun.(*ast.SelectorExpr); isSel {
				if ce, found := g.t.methods[sel.Sel.Name]; found && !ce.effect {
					return true
				}
			}
			ok = false
		}
		return true
	})
	return ok
}

func (g *fsTr) assign(ind int, x *ast.AssignStmt) {
	if len(x.Rhs) != 1 {
		g.fail(x, "parallel assignment")
	}
	var rhs string
	nres := 1
	if c, ok := x.Rhs[0].(*ast.CallExpr); ok && g.dropped(c) && x.Tok == token.DEFINE && len(x.Lhs) == 1 {
		// `logger := log.GetLogger(ctx)`: the local is a logger under whatever name
		if id, ok := x.Lhs[0].(*ast.Ident); ok {
			g.loggers[id.Name] = true
			return
		}
	}
	if ta, ok := x.Rhs[0].(*ast.TypeAssertExpr); ok && len(x.Lhs) == 2 && ta.Type != nil {
		f, known := g.t.asserts[types.ExprString(ta.Type)]
		if !known {
			g.fail(x, "type assertion to %s: no asserts entry", exprText(ta.Type))
		}
		rhs = "(← (" + f + " " + g.expr(ta.X) + "))"
		nres = 2
	} else if c, ok := x.Rhs[0].(*ast.CallExpr); ok {
		s, ce := g.call(c)
		rhs = s
		if ce.effect {
			rhs = "(← " + s + ")"
		}
		nres = ce.nres
	} else {
		rhs = g.expr(x.Rhs[0])
	}
	if nres != len(x.Lhs) {
		g.fail(x, "%d targets for %d results", len(x.Lhs), nres)
	}
	// Go: `:=` declares the names that are new IN THE CURRENT SCOPE and assigns the others
	var pat []string
	var later []string
	for i, l := range x.Lhs {
		id, ok := l.(*ast.Ident)
		if !ok {
			g.fail(x, "assignment to %s", exprText(l))
		}
		if id.Name == "_" {
			pat = append(pat, "_")
			continue
		}
		_, here := g.scope.names[id.Name]
		if x.Tok == token.DEFINE && !here {
			l := g.declare(id.Name)
			if g.assigned[id.Name] > 0 {
				// assigned again later: bound immutably first, then copied into a `let mut`
				tmp := l + "_init"
				pat = append(pat, tmp)
				later = append(later, fmt.Sprintf("let mut %s := %s", l, tmp))
				g.markMutable(l)
			} else {
				pat = append(pat, l)
			}
			continue
		}
		cur, ok := g.lookup(id)
		if !ok {
			g.fail(x, "assignment to undeclared %s", id.Name)
		}
		for _, nm := range g.named {
			if nm == id.Name && g.hasDefer {
				g.fail(x, "assignment to the named result %s in a function with defer (only `return` may set it)", id.Name)
			}
		}
		if !g.mutable[cur] {
			g.fail(x, "assignment to %s, which was not introduced as mutable", id.Name)
		}
		tmp := fmt.Sprintf("%s_new%d", cur, i)
		pat = append(pat, tmp)
		if g.depthOf[cur] < g.doDepth {
			// the variable lives outside the inner block a `defer` introduced: Lean cannot assign it from
			// here. The block gets a copy of its own; sound because after the block only deferred calls run,
			// and a deferred function that reads a variable assigned after its defer statement is refused
			// (the named results, which it may read, are never assigned in a function with defer)
			nl := g.fresh(id.Name)
			g.scope.names[id.Name] = nl
			g.markMutable(nl)
			later = append(later, fmt.Sprintf("let mut %s := %s", nl, tmp))
			continue
		}
		later = append(later, fmt.Sprintf("%s := %s", cur, tmp))
	}
	if len(pat) == 1 {
		g.line(ind, fmt.Sprintf("let %s := %s", pat[0], rhs))
	} else {
		g.line(ind, fmt.Sprintf("let (%s) := %s", strings.Join(pat, ", "), rhs))
	}
	for _, l := range later {
		g.line(ind, l)
	}
}

// declared variables that are assigned again need `let mut`; to keep the text simple every
// re-assignment is refused unless the variable was declared mutable up front
func (g *fsTr) countAssignments(body *ast.BlockStmt) {
	declared := map[string]bool{}
	ast.Inspect(body, func(n ast.Node) bool {
		if as, ok := n.(*ast.AssignStmt); ok {
			for _, l := range as.Lhs {
				if id, ok := l.(*ast.Ident); ok && id.Name != "_" {
					if as.Tok == token.DEFINE && !declared[id.Name] {
						declared[id.Name] = true
					} else if as.Tok != token.DEFINE {
						g.assigned[id.Name]++
					}
				}
			}
		}
		return true
	})
}

func (g *fsTr) returnStmt(ind int, x *ast.ReturnStmt) {
	if len(x.Results) == 0 {
		if len(g.named) == 0 {
			g.line(ind, "return ()")
			return
		}
		var rs []string
		for _, n := range g.named {
			l, _ := g.lookup(ast.NewIdent(n))
			rs = append(rs, l)
		}
		g.line(ind, "return "+tuple(rs))
		return
	}
	var rs []string
	for _, r := range x.Results {
		rs = append(rs, g.expr(r))
	}
	g.line(ind, "return "+tuple(rs))
}

func tuple(rs []string) string {
	if len(rs) == 1 {
		return rs[0]
	}
	return "(" + strings.Join(rs, ", ") + ")"
}

func (g *fsTr) deferred(ind int, d *ast.DeferStmt) {
	switch fn := d.Call.Fun.(type) {
	case *ast.FuncLit:
		if len(d.Call.Args) != 0 || fn.Type.Params.NumFields() != 0 {
			g.fail(d, "deferred function literal with parameters")
		}
		ast.Inspect(fn.Body, func(n ast.Node) bool {
			switch y := n.(type) {
			case *ast.ReturnStmt:
				if len(y.Results) > 0 {
					g.fail(y, "return with values inside a deferred function")
				}
			case *ast.DeferStmt:
				g.fail(y, "defer inside a deferred function")
			case *ast.CallExpr:
				if callName(y) == "recover" {
					g.fail(y, "recover")
				}
			}
			return true
		})
		ast.Inspect(fn.Body, func(n ast.Node) bool {
			if id, ok := n.(*ast.Ident); ok && g.assigned[id.Name] > 0 {
				isResult := false
				for _, nm := range g.named {
					if nm == id.Name {
						isResult = true
					}
				}
				if _, local := g.lookup(id); local && !isResult {
					g.fail(id, "a deferred function reads %s, which is assigned elsewhere in the function", id.Name)
				}
			}
			return true
		})
		g.push()
		g.stmts(ind, fn.Body.List, true)
		g.pop()
	default:
		if g.dropped(d.Call) {
			for _, a := range d.Call.Args {
				if !g.frozen(a) {
					g.fail(d, "argument %s of a dropped deferred call has an effect", exprText(a))
				}
			}
			return
		}
		for _, a := range d.Call.Args {
			if !g.frozen(a) {
				g.fail(d, "argument %s of a deferred call is not fixed at the defer statement", exprText(a))
			}
		}
		if sel, ok := d.Call.Fun.(*ast.SelectorExpr); ok {
			if !g.frozen(sel.X) {
				g.fail(d, "receiver %s of a deferred call is not fixed at the defer statement", exprText(sel.X))
			}
		}
		s, ce := g.call(d.Call)
		if ce.effect {
			g.line(ind, "discard "+s)
		}
	}
}

// stmts translates a statement list; inDeferred: the list is the body of a deferred function
// (its value is ignored, it ends by falling off the end)
func (g *fsTr) stmts(ind int, list []ast.Stmt, inDeferred bool) {
	for i, s := range list {
		switch x := s.(type) {
		case *ast.DeferStmt:
			if inDeferred {
				g.fail(x, "defer in a nested position")
			}
			// the rest of the function runs first, inside a block of its own; what it returns is
			// the value of the results when the deferred call runs. Inside the block a named result
			// still reads as its zero value (assignments to it are refused)
			var rs []string
			if len(g.named) > 0 {
				for _, n := range g.named {
					rs = append(rs, g.fresh(n))
				}
			} else {
				rs = []string{g.fresh("r__")}
			}
			res := tuple(rs)
			g.line(ind, fmt.Sprintf("let %s ← (do", res))
			g.push()
			g.doDepth++
			g.stmts(ind+2, list[i+1:], false)
			g.doDepth--
			g.pop()
			g.line(ind+2, ": "+g.monad()+" ("+g.t.ret+"))")
			for j, n := range g.named {
				g.scope.names[n] = rs[j]
			}
			g.deferred(ind, x)
			g.line(ind, "return "+res)
			return
		case *ast.AssignStmt:
			g.assign(ind, x)
		case *ast.DeclStmt:
			gd, ok := x.Decl.(*ast.GenDecl)
			if !ok || gd.Tok != token.VAR {
				g.fail(x, "declaration other than var")
			}
			for _, sp := range gd.Specs {
				vs := sp.(*ast.ValueSpec)
				if len(vs.Values) != 0 || vs.Type == nil {
					g.fail(x, "var with an initialiser")
				}
				ty := types.ExprString(vs.Type)
				for _, n := range vs.Names {
					g.varTypes[n.Name] = ty
					if _, isAs := g.t.asFuncs[ty]; isAs {
						continue // only ever read through errors.As (checked there)
					}
					z, ok := g.t.zeroValues[ty]
					if !ok {
						g.fail(x, "var of type %s: no zeroValues entry", ty)
					}
					l := g.declare(n.Name)
					g.markMutable(l)
					g.line(ind, fmt.Sprintf("let mut %s := %s", l, z))
				}
			}
		case *ast.ExprStmt:
			c, ok := x.X.(*ast.CallExpr)
			if !ok {
				g.fail(x, "expression statement")
			}
			if g.dropped(c) {
				for _, a := range c.Args {
					if !g.effectFree(a) {
						g.fail(x, "argument %s of a dropped call has an effect", exprText(a))
					}
				}
				continue
			}
			sc, ce := g.call(c)
			if !ce.effect {
				g.fail(x, "call of the pure %s as a statement", callName(c))
			}
			g.line(ind, "discard "+sc)
		case *ast.IfStmt:
			ast.Inspect(x, func(n ast.Node) bool {
				if d, ok := n.(*ast.DeferStmt); ok {
					g.fail(d, "defer below the top level of the function")
				}
				return true
			})
			g.push()
			if x.Init != nil {
				as, ok := x.Init.(*ast.AssignStmt)
				if !ok {
					g.fail(x, "if with an initialiser that is not an assignment")
				}
				g.assign(ind, as)
			}
			g.line(ind, "if "+g.expr(x.Cond)+" then")
			g.push()
			if len(x.Body.List) == 0 {
				g.line(ind+1, "pure ()")
			}
			g.stmts(ind+1, x.Body.List, inDeferred)
			g.pop()
			if x.Else != nil {
				eb, ok := x.Else.(*ast.BlockStmt)
				if !ok {
					g.fail(x, "else if")
				}
				g.line(ind, "else")
				g.push()
				g.stmts(ind+1, eb.List, inDeferred)
				g.pop()
			}
			g.pop()
		case *ast.ReturnStmt:
			if inDeferred {
				g.fail(x, "return inside a deferred function")
			}
			g.returnStmt(ind, x)
			if i != len(list)-1 {
				g.fail(x, "statements after return")
			}
			return
		default:
			g.fail(s, "statement outside the subset")
		}
	}
}

func fsTranslate(t *fsTarget) (string, map[string]bool) {
	f := parseFile(t.file)
	fd := mustFunc(f, t.file, t.recv, t.fn)
	g := &fsTr{t: t, consts: consts(f), used: map[string]int{}, assigned: map[string]int{}, usedCons: map[string]bool{},
		depthOf: map[string]int{}, mutable: map[string]bool{}, varTypes: map[string]string{}, asSubst: map[string]string{}, loggers: map[string]bool{}}
	ast.Inspect(fd.Body, func(n ast.Node) bool {
		if _, ok := n.(*ast.DeferStmt); ok {
			g.hasDefer = true
		}
		return true
	})
	g.push()
	for _, p := range fd.Type.Params.List {
		for _, n := range p.Names {
			g.declare(n.Name)
		}
	}
	if fd.Recv != nil {
		for _, p := range fd.Recv.List {
			for _, n := range p.Names {
				g.declare(n.Name)
			}
		}
	}
	g.countAssignments(fd.Body)
	nstmts := 0
	ast.Inspect(fd.Body, func(n ast.Node) bool {
		if _, ok := n.(ast.Stmt); ok {
			nstmts++
		}
		return true
	})
	g.line(0, fmt.Sprintf("/-- translated from `%s` (%s), %d statements -/", t.fn, t.file, nstmts))
	g.line(0, fmt.Sprintf("def %s %s : %s (%s) := do", t.leanName, t.params, g.monad(), t.ret))
	if fd.Type.Results != nil {
		for _, r := range fd.Type.Results.List {
			for _, n := range r.Names {
				// a named result starts as the zero value of its type
				id, ok := r.Type.(*ast.Ident)
				isErr := ok && id.Name == "error"
				kw := "let"
				if !g.hasDefer {
					kw = "let mut" // without defer a named result is an ordinary local
				}
				if !isErr {
					if g.hasDefer {
						g.fail(r, "named result %s of a type other than error in a function with defer", n.Name)
					}
					z, known := t.zeroValues[types.ExprString(r.Type)]
					if !known {
						g.fail(r, "named result %s of type %s: no zeroValues entry", n.Name, exprText(r.Type))
					}
					g.named = append(g.named, n.Name)
					l := g.declare(n.Name)
					g.markMutable(l)
					g.line(1, fmt.Sprintf("%s %s := %s", kw, l, z))
					continue
				}
				g.named = append(g.named, n.Name)
				l := g.declare(n.Name)
				if !g.hasDefer {
					g.markMutable(l)
				}
				g.line(1, fmt.Sprintf("%s %s : Option GoLite.Err := none", kw, l))
			}
		}
	}
	// parameters, results and the top level of the body share one scope (Go's function block)
	g.stmts(1, fd.Body.List, false)
	return g.out.String(), g.usedCons
}

// fsFile renders one generated module
func fsFile(ns string, targets []*fsTarget, imports ...string) string {
	var b strings.Builder
	b.WriteString("/- GENERATED by /verif/extract (go2lean_fs.go) from the Go source on every run - do not edit. -/\n")
	b.WriteString("import NotationModel.GoLite\n")
	for _, im := range imports {
		b.WriteString("import " + im + "\n")
	}
	b.WriteString("\nnamespace NotationModel.Src\nnamespace " + ns + "\n\n")
	var bodies []string
	cons := map[string]string{}
	var order []string
	for _, t := range targets {
		body, used := fsTranslate(t)
		bodies = append(bodies, body)
		f := parseFile(t.file)
		all := consts(f)
		for _, d := range f.Decls { // keep source order
			gd, ok := d.(*ast.GenDecl)
			if !ok || gd.Tok != token.CONST {
				continue
			}
			for _, sp := range gd.Specs {
				for _, n := range sp.(*ast.ValueSpec).Names {
					if used[n.Name] {
						if _, seen := cons[n.Name]; !seen {
							cons[n.Name] = all[n.Name]
							order = append(order, n.Name)
						}
					}
				}
			}
		}
	}
	for _, n := range order {
		b.WriteString(fmt.Sprintf("/-- constant `%s` -/\ndef %s : String := %s\n\n", n, n, leanStr(cons[n])))
	}
	b.WriteString(strings.Join(bodies, "\n"))
	b.WriteString("\nend " + ns + "\nend NotationModel.Src\n")
	return b.String()
}

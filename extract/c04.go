package main

import (
	"fmt"
	"go/ast"
	"go/token"
	"strconv"
	"strings"
)

func init() { families = append(families, family{"C04", genC04}) }

// leanChars renders a Go string as a Lean `List Char` literal (the model works on
// character lists; literal lists keep `decide` independent of the String implementation).
func leanChars(s string) string {
	var q []string
	for _, r := range s {
		switch {
		case r == '\'':
			q = append(q, `'\''`)
		case r == '\\':
			q = append(q, `'\\'`)
		case r < 0x20 || r == 0x7f:
			q = append(q, fmt.Sprintf(`'\x%02x'`, r))
		default:
			q = append(q, "'"+string(r)+"'")
		}
	}
	return "[" + strings.Join(q, ", ") + "]"
}

func strLit(e ast.Expr) (string, bool) {
	bl, ok := e.(*ast.BasicLit)
	if !ok || bl.Kind != token.STRING {
		return "", false
	}
	s, err := strconv.Unquote(bl.Value)
	return s, err == nil
}

// genC04: the constants and guards the identity check is made of -
// internal/trustpolicy (Wildcard, X509Subject), verifier.verifyX509TrustedIdentities
// (separator of strings.Cut, index of the certificate whose subject is matched), internal/pkix (the "=#" refusal, the
// multi-valued RDN bound, the S->ST alias, the mandatory attribute list).
// Only values are emitted (no variable names), so renamings do not disturb the facts.
func genC04() string {
	var b strings.Builder

	const tpFile = "internal/trustpolicy/trustpolicy.go"
	tcs := consts(parseFile(tpFile))
	for _, n := range []string{"Wildcard", "X509Subject"} {
		if _, ok := tcs[n]; !ok {
			fail("%s: constant %s not found", tpFile, n)
		}
	}
	fmt.Fprintf(&b, "/-- `Wildcard` of %s -/\ndef c04Wildcard : List Char := %s\n\n", tpFile, leanChars(tcs["Wildcard"]))
	fmt.Fprintf(&b, "/-- `X509Subject` of %s -/\ndef c04X509Subject : List Char := %s\n\n", tpFile, leanChars(tcs["X509Subject"]))

	// ---- verifier.verifyX509TrustedIdentities -------------------------------------------
	const vFile = "verifier/verifier.go"
	vf := parseFile(vFile)
	fn := mustFunc(vf, vFile, "", "verifyX509TrustedIdentities")
	if fn.Type.Params == nil || len(fn.Type.Params.List) != 3 {
		fail("%s: verifyX509TrustedIdentities no longer has three parameter groups", vFile)
	}
	certsParam := fn.Type.Params.List[2].Names[0].Name

	sep, sepFound := "", false
	leafIndex, leafFound := "", false
	var subsetArgs []string
	prefixCmp := ""
	ast.Inspect(fn.Body, func(n ast.Node) bool {
		switch x := n.(type) {
		case *ast.CallExpr:
			switch callName(x) {
			case "strings.Cut":
				if len(x.Args) == 2 {
					if s, ok := strLit(x.Args[1]); ok {
						sep, sepFound = s, true
					}
				}
			case "pkix.IsSubsetDN":
				for _, a := range x.Args {
					subsetArgs = append(subsetArgs, exprText(a))
				}
			}
		case *ast.AssignStmt:
			if len(x.Lhs) == 1 && len(x.Rhs) == 1 && exprText(x.Lhs[0]) == "leafCert" {
				if ie, ok := x.Rhs[0].(*ast.IndexExpr); ok && exprText(ie.X) == certsParam {
					if bl, ok := ie.Index.(*ast.BasicLit); ok && bl.Kind == token.INT {
						leafIndex, leafFound = bl.Value, true
					}
				}
			}
		case *ast.BinaryExpr:
			if x.Op == token.EQL || x.Op == token.NEQ {
				if strings.HasSuffix(exprText(x.Y), ".X509Subject") {
					prefixCmp = exprText(x.X)
				} else if strings.HasSuffix(exprText(x.X), ".X509Subject") {
					prefixCmp = exprText(x.Y)
				}
			}
		}
		return true
	})
	if !sepFound || len([]rune(sep)) != 1 {
		fail("%s: strings.Cut(identity, <one-character literal>) not found in verifyX509TrustedIdentities", vFile)
	}
	if !leafFound {
		fail("%s: `leafCert := %s[<literal>]` not found in verifyX509TrustedIdentities", vFile, certsParam)
	}
	if len(subsetArgs) != 2 {
		fail("%s: pkix.IsSubsetDN(a, b) call not found in verifyX509TrustedIdentities", vFile)
	}
	if prefixCmp == "" {
		fail("%s: comparison `<prefix> == X509Subject` not found in verifyX509TrustedIdentities", vFile)
	}
	fmt.Fprintf(&b, "/-- separator of `strings.Cut(identity, …)` in verifyX509TrustedIdentities -/\ndef c04Separator : Char := %s\n\n", strings.Trim(leanChars(sep), "[]"))
	fmt.Fprintf(&b, "/-- index into the certificate chain of the certificate whose subject is matched (`leafCert := certs[…]`) -/\ndef c04LeafIndex : Nat := %s\n\n", leafIndex)

	// ---- internal/pkix ----------------------------------------------------------------------
	const pFile = "internal/pkix/pkix.go"
	pf := parseFile(pFile)
	pd := mustFunc(pf, pFile, "", "ParseDistinguishedName")
	unsupported, unsupportedFound := "", false
	maxAttrs, maxFound := "", false
	aliasFrom, aliasTo, aliasFound := "", "", false
	var mandatory []string
	mandatoryFound := false
	ast.Inspect(pd.Body, func(n ast.Node) bool {
		switch x := n.(type) {
		case *ast.CallExpr:
			if callName(x) == "strings.Contains" && len(x.Args) == 2 {
				if s, ok := strLit(x.Args[1]); ok {
					unsupported, unsupportedFound = s, true
				}
			}
		case *ast.IfStmt:
			// if len(rdn.Attributes) > N { return nil, … }
			if be, ok := x.Cond.(*ast.BinaryExpr); ok {
				if be.Op == token.GTR && strings.HasPrefix(exprText(be.X), "len(") && strings.Contains(exprText(be.X), "Attributes") {
					if bl, ok := be.Y.(*ast.BasicLit); ok && bl.Kind == token.INT {
						maxAttrs, maxFound = bl.Value, true
					}
				}
				// if attribute.Type == "S" { attribute.Type = "ST" } - in either orientation, on any variable
				if be.Op == token.EQL && len(x.Body.List) == 1 && x.Else == nil {
					v, lit := be.X, be.Y
					if _, ok := strLit(lit); !ok {
						v, lit = be.Y, be.X
					}
					if from, ok := strLit(lit); ok {
						if as, ok := x.Body.List[0].(*ast.AssignStmt); ok && len(as.Lhs) == 1 && len(as.Rhs) == 1 &&
							exprText(as.Lhs[0]) == exprText(v) {
							if to, ok := strLit(as.Rhs[0]); ok {
								aliasFrom, aliasTo, aliasFound = from, to, true
							}
						}
					}
				}
			}
		case *ast.AssignStmt:
			if len(x.Lhs) == 1 && len(x.Rhs) == 1 && exprText(x.Lhs[0]) == "mandatoryFields" {
				if cl, ok := x.Rhs[0].(*ast.CompositeLit); ok {
					mandatoryFound = true
					for _, el := range cl.Elts {
						s, ok := strLit(el)
						if !ok {
							fail("%s: mandatoryFields has a non-literal element", pFile)
						}
						mandatory = append(mandatory, s)
					}
				}
			}
		}
		return true
	})
	if !unsupportedFound {
		fail("%s: strings.Contains(name, <literal>) refusal not found in ParseDistinguishedName", pFile)
	}
	if !maxFound {
		fail("%s: `len(rdn.Attributes) > <literal>` guard not found in ParseDistinguishedName", pFile)
	}
	if !aliasFound {
		fail("%s: attribute type alias (`if attribute.Type == \"S\" { attribute.Type = \"ST\" }`) not found in ParseDistinguishedName", pFile)
	}
	if !mandatoryFound {
		fail("%s: mandatoryFields literal not found in ParseDistinguishedName", pFile)
	}
	fmt.Fprintf(&b, "/-- substring that makes `pkix.ParseDistinguishedName` refuse a name -/\ndef c04Unsupported : List Char := %s\n\n", leanChars(unsupported))
	fmt.Fprintf(&b, "/-- an RDN with more attributes than this is refused (`len(rdn.Attributes) > …`) -/\ndef c04MaxAttrsPerRDN : Nat := %s\n\n", maxAttrs)
	fmt.Fprintf(&b, "/-- attribute type alias applied before the map insertion -/\ndef c04AliasFrom : List Char := %s\ndef c04AliasTo : List Char := %s\n\n", leanChars(aliasFrom), leanChars(aliasTo))
	var ms []string
	for _, m := range mandatory {
		ms = append(ms, leanChars(m))
	}
	fmt.Fprintf(&b, "/-- `mandatoryFields` of ParseDistinguishedName -/\ndef c04Mandatory : List (List Char) := [%s]\n\n", strings.Join(ms, ", "))

	mustFunc(pf, pFile, "", "IsSubsetDN")
	return b.String()
}

package main

import (
	"fmt"
	"go/ast"
	"go/token"
	"os"
	"os/exec"
	"path/filepath"
	"strconv"
	"strings"
)

// C11 - facts about notation.SignOCI (notation.go) and the annotation keys it writes:
//   - reservedAnnotationPrefixes,
//   - the keys generateAnnotations writes (values of envelope.AnnotationX509ChainThumbprint
//     and ocispec.AnnotationCreated), the hash it applies to the certificates and the time layout,
//   - guard-presence facts about addUserMetadataToDescriptor: the descriptor is taken by value,
//     a map made with make(map[string]string, …) (or maps.Clone of the old one) is assigned to
//     desc.Annotations before the merge loop writes, the old entries are copied into it, and
//     nothing writes through desc.Annotations[...] before that assignment,
//   - the data flow of SignOCI: which variable receives Resolve's answer, which one is merged,
//     which one the signer gets and which one PushSignature gets as subject.
func init() { families = append(families, family{"C11", genC11}) }

func c11Chars(s string) string {
	var parts []string
	for _, r := range s {
		switch {
		case r == '\'':
			parts = append(parts, `'\''`)
		case r == '\\':
			parts = append(parts, `'\\'`)
		case r < 0x20 || r == 0x7f:
			parts = append(parts, fmt.Sprintf(`'\x%02x'`, r))
		default:
			parts = append(parts, "'"+string(r)+"'")
		}
	}
	return "[" + strings.Join(parts, ", ") + "]"
}

// c11ModuleDir locates a dependency's source as required by the tree's go.mod.
func c11ModuleDir(mod string) string {
	cmd := exec.Command("go", "list", "-m", "-f", "{{.Dir}}", mod)
	cmd.Dir = repoRoot
	if out, err := cmd.Output(); err == nil {
		if d := strings.TrimSpace(string(out)); d != "" {
			if _, err := os.Stat(d); err == nil {
				return d
			}
		}
	}
	gm, err := os.ReadFile(filepath.Join(repoRoot, "go.mod"))
	if err != nil {
		fail("go.mod: %v", err)
	}
	version := ""
	for _, l := range strings.Split(string(gm), "\n") {
		f := strings.Fields(l)
		for i, w := range f {
			if w == mod && i+1 < len(f) {
				version = f[i+1]
			}
		}
	}
	if version == "" {
		fail("go.mod: no requirement on %s", mod)
	}
	cache := os.Getenv("GOMODCACHE")
	if cache == "" {
		if out, err := exec.Command("go", "env", "GOMODCACHE").Output(); err == nil {
			cache = strings.TrimSpace(string(out))
		}
	}
	d := filepath.Join(cache, mod+"@"+version)
	if _, err := os.Stat(d); err != nil {
		fail("cannot locate %s@%s in the module cache: %v", mod, version, err)
	}
	return d
}

func c11ParseAbs(path string) *ast.File {
	old := repoRoot
	repoRoot = ""
	defer func() { repoRoot = old }()
	return parseFile(path)
}

// c11IsFreshMap: make(map[string]string, …) or maps.Clone(desc.Annotations)
func c11IsFreshMap(e ast.Expr) (fresh, clones bool) {
	c, ok := e.(*ast.CallExpr)
	if !ok {
		return false, false
	}
	switch callName(c) {
	case "make":
		if len(c.Args) >= 1 {
			if _, ok := c.Args[0].(*ast.MapType); ok {
				return true, false
			}
		}
	case "maps.Clone":
		if len(c.Args) == 1 && exprText(c.Args[0]) == "desc.Annotations" {
			return true, true
		}
	}
	return false, false
}

// c11IndexWrites: assignments `<target>[…] = …` inside n
func c11IndexWrites(n ast.Node, target string) int {
	cnt := 0
	ast.Inspect(n, func(x ast.Node) bool {
		as, ok := x.(*ast.AssignStmt)
		if !ok {
			return true
		}
		for _, l := range as.Lhs {
			if ie, ok := l.(*ast.IndexExpr); ok && exprText(ie.X) == target {
				cnt++
			}
		}
		return true
	})
	return cnt
}

func genC11() string {
	var b strings.Builder
	const file = "notation.go"
	f := parseFile(file)

	// reservedAnnotationPrefixes
	e := findVar(f, "reservedAnnotationPrefixes")
	cl, ok := e.(*ast.CompositeLit)
	if !ok {
		fail("%s: reservedAnnotationPrefixes is not a composite literal", file)
	}
	var prefixes []string
	for _, el := range cl.Elts {
		bl, ok := el.(*ast.BasicLit)
		if !ok || bl.Kind != token.STRING {
			fail("%s: reservedAnnotationPrefixes has a non-literal element", file)
		}
		v, err := strconv.Unquote(bl.Value)
		if err != nil {
			fail("%s: %v", file, err)
		}
		prefixes = append(prefixes, v)
	}
	var pl []string
	for _, p := range prefixes {
		pl = append(pl, c11Chars(p))
	}
	fmt.Fprintf(&b, "/-- `reservedAnnotationPrefixes` of %s -/\ndef c11ReservedPrefixes : List (List Char) := [%s]\n\n", file, strings.Join(pl, ", "))

	// annotation keys
	const envFile = "internal/envelope/envelope.go"
	ecs := consts(parseFile(envFile))
	thumb, ok := ecs["AnnotationX509ChainThumbprint"]
	if !ok {
		fail("%s: constant AnnotationX509ChainThumbprint not found", envFile)
	}
	fmt.Fprintf(&b, "/-- `envelope.AnnotationX509ChainThumbprint` (%s) -/\ndef c11ThumbprintKey : List Char := %s\n\n", envFile, c11Chars(thumb))
	specDir := c11ModuleDir("github.com/opencontainers/image-spec")
	acs := consts(c11ParseAbs(filepath.Join(specDir, "specs-go", "v1", "annotations.go")))
	created, ok := acs["AnnotationCreated"]
	if !ok {
		fail("image-spec annotations.go: constant AnnotationCreated not found")
	}
	fmt.Fprintf(&b, "/-- `ocispec.AnnotationCreated` (image-spec as required by go.mod) -/\ndef c11CreatedKey : List Char := %s\n\n", c11Chars(created))

	// generateAnnotations: keys written, hash, time layout
	ga := mustFunc(f, file, "", "generateAnnotations")
	var keys []string
	hash, layout := "", ""
	ast.Inspect(ga.Body, func(n ast.Node) bool {
		switch x := n.(type) {
		case *ast.AssignStmt:
			for _, l := range x.Lhs {
				if ie, ok := l.(*ast.IndexExpr); ok && exprText(ie.X) == "annotations" {
					keys = append(keys, exprText(ie.Index))
				}
			}
		case *ast.CallExpr:
			nm := callName(x)
			if strings.HasPrefix(nm, "sha") || strings.HasPrefix(nm, "md5.") {
				hash = exprText(x)
			}
			if strings.HasSuffix(nm, ".Format") && len(x.Args) == 1 {
				layout = exprText(x.Args[0])
			}
		}
		return true
	})
	fmt.Fprintf(&b, "/-- keys `generateAnnotations` writes into the manifest annotations, in source order -/\ndef c11GeneratedKeys : List String := %s\n", leanStrList(keys))
	fmt.Fprintf(&b, "/-- the hash `generateAnnotations` applies to every chain certificate -/\ndef c11ThumbprintHash : String := %s\n", leanStr(hash))
	fmt.Fprintf(&b, "/-- the layout `generateAnnotations` formats the signing time with -/\ndef c11CreatedLayout : String := %s\n\n", leanStr(layout))

	// envelope.SigningTime normalises to UTC
	st := mustFunc(parseFile(envFile), envFile, "", "SigningTime")
	utc := false
	for _, s := range st.Body.List {
		if rs, ok := s.(*ast.ReturnStmt); ok && len(rs.Results) == 2 && exprText(rs.Results[1]) == "nil" {
			if c, ok := rs.Results[0].(*ast.CallExpr); ok && strings.HasSuffix(callName(c), ".UTC") {
				utc = true
			}
		}
	}
	fmt.Fprintf(&b, "/-- `envelope.SigningTime` returns the signing time converted with `.UTC()` -/\ndef c11SigningTimeIsUTC : Bool := %s\n\n", leanBool(utc))

	// addUserMetadataToDescriptor
	am := mustFunc(f, file, "", "addUserMetadataToDescriptor")
	byValue := false
	for _, p := range am.Type.Params.List {
		for _, n := range p.Names {
			if n.Name == "desc" {
				byValue = exprText(p.Type) == "ocispec.Descriptor"
			}
		}
	}
	loopIdx := -1
	for i, s := range am.Body.List {
		if rs, ok := s.(*ast.RangeStmt); ok && exprText(rs.X) == "userMetadata" {
			loopIdx = i
			break
		}
	}
	if loopIdx < 0 {
		fail("%s: addUserMetadataToDescriptor has no top-level loop over userMetadata", file)
	}
	loop := am.Body.List[loopIdx].(*ast.RangeStmt)
	loopWrites := c11IndexWrites(loop.Body, "desc.Annotations")
	fresh, copies, guard := false, false, ""
	earlyWrites := 0
	// the statements before the merge loop, with `if <cond> { … }` (no init, no else) and bare blocks flattened
	type guarded struct {
		st    ast.Stmt
		guard string
	}
	var pre []guarded
	for _, s := range am.Body.List[:loopIdx] {
		switch x := s.(type) {
		case *ast.IfStmt:
			if x.Init == nil && x.Else == nil {
				for _, t := range x.Body.List {
					pre = append(pre, guarded{t, exprText(x.Cond)})
				}
				continue
			}
		case *ast.BlockStmt:
			for _, t := range x.List {
				pre = append(pre, guarded{t, ""})
			}
			continue
		}
		pre = append(pre, guarded{s, ""})
	}
	freshVars := map[string]string{} // variable holding a map made here -> guard it was made under
	for _, gs := range pre {
		if fresh {
			break
		}
		switch x := gs.st.(type) {
		case *ast.AssignStmt:
			if len(x.Lhs) == 1 && len(x.Rhs) == 1 {
				isFresh, clones := c11IsFreshMap(x.Rhs[0])
				lhs := exprText(x.Lhs[0])
				if id, ok := x.Rhs[0].(*ast.Ident); ok {
					if g, ok := freshVars[id.Name]; ok && g == gs.guard {
						isFresh = true
					}
				}
				if isFresh && lhs == "desc.Annotations" {
					fresh, guard = true, gs.guard
					if clones {
						copies = true
					}
				} else if isFresh {
					if _, ok := x.Lhs[0].(*ast.Ident); ok {
						freshVars[lhs] = gs.guard
						if clones {
							copies = true
						}
					}
				}
			}
			if !fresh {
				earlyWrites += c11IndexWrites(x, "desc.Annotations")
			}
		case *ast.RangeStmt:
			// `for k, v := range desc.Annotations { fresh[k] = v }`
			if exprText(x.X) == "desc.Annotations" {
				for v := range freshVars {
					if c11IndexWrites(x.Body, v) > 0 {
						copies = true
					}
				}
			}
			earlyWrites += c11IndexWrites(x, "desc.Annotations")
		case *ast.ExprStmt:
			// maps.Copy(fresh, desc.Annotations)
			if c, ok := x.X.(*ast.CallExpr); ok && callName(c) == "maps.Copy" && len(c.Args) == 2 && exprText(c.Args[1]) == "desc.Annotations" {
				if _, ok := freshVars[exprText(c.Args[0])]; ok {
					copies = true
				}
			}
		default:
			earlyWrites += c11IndexWrites(gs.st, "desc.Annotations")
		}
	}
	guardOK := guard == "" || guard == "len(userMetadata)>0" || guard == "len(userMetadata)!=0"
	fmt.Fprintf(&b, "/-- `addUserMetadataToDescriptor` takes the descriptor by value -/\ndef c11MergeDescByValue : Bool := %s\n", leanBool(byValue))
	fmt.Fprintf(&b, "/-- before the merge loop a map made with `make(map[string]string, …)` (or `maps.Clone`) is assigned to\n`desc.Annotations`, unconditionally or under `len(userMetadata) > 0`, and nothing writes through\n`desc.Annotations[…]` before that -/\ndef c11MergeAllocatesFreshMap : Bool := %s\n", leanBool(fresh && guardOK && earlyWrites == 0))
	fmt.Fprintf(&b, "/-- the entries of the old map are copied into the new one -/\ndef c11MergeCopiesOld : Bool := %s\n", leanBool(copies))
	fmt.Fprintf(&b, "/-- the condition guarding the allocation (empty: unconditional) -/\ndef c11MergeAllocGuard : String := %s\n", leanStr(guard))
	fmt.Fprintf(&b, "/-- number of `desc.Annotations[…] = …` writes in the merge loop -/\ndef c11MergeLoopWrites : Nat := %d\n\n", loopWrites)

	// data flow of SignOCI
	so := mustFunc(f, file, "", "SignOCI")
	resolveVar, mergeIn, mergeOut, signerArg, pushSubject := "", "", "", "", ""
	ast.Inspect(so.Body, func(n ast.Node) bool {
		as, ok := n.(*ast.AssignStmt)
		if !ok || len(as.Rhs) != 1 {
			return true
		}
		c, ok := as.Rhs[0].(*ast.CallExpr)
		if !ok {
			return true
		}
		switch callName(c) {
		case "repo.Resolve":
			resolveVar = exprText(as.Lhs[0])
		case "addUserMetadataToDescriptor":
			if len(c.Args) == 3 {
				mergeIn, mergeOut = exprText(c.Args[1]), exprText(as.Lhs[0])
			}
		case "signer.Sign":
			if len(c.Args) == 3 {
				signerArg = exprText(c.Args[1])
			}
		case "repo.PushSignature":
			if len(c.Args) == 5 {
				pushSubject = exprText(c.Args[3])
			}
		}
		return true
	})
	if resolveVar == "" || mergeIn == "" || signerArg == "" || pushSubject == "" {
		fail("%s: SignOCI: could not find the Resolve / addUserMetadataToDescriptor / signer.Sign / PushSignature calls", file)
	}
	fmt.Fprintf(&b, "/-- data flow of `SignOCI`: variable receiving `repo.Resolve`, descriptor given to the merge, variable receiving\nthe merge, descriptor given to `signer.Sign`, subject given to `repo.PushSignature` -/\n")
	fmt.Fprintf(&b, "def c11ResolveVar : String := %s\ndef c11MergeInput : String := %s\ndef c11MergeOutput : String := %s\ndef c11SignerDescArg : String := %s\ndef c11PushSubjectArg : String := %s\n",
		leanStr(resolveVar), leanStr(mergeIn), leanStr(mergeOut), leanStr(signerArg), leanStr(pushSubject))
	return b.String()
}

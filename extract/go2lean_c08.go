package main

// Translation targets of C08 (trust policy statement selection): the functions that decide which
// statement applies, translated on every run into lean/NotationModel/Generated/SrcC08.lean.
// Library calls and the scope format check are oracles / parameters, see
// lean/NotationModel/Src/TypesC08.lean.

const (
	c08OCI  = "verifier/trustpolicy/oci.go"
	c08Blob = "verifier/trustpolicy/blob.go"
)

func init() {
	families = append(families,
		family{"SrcC08", func() string {
			return g2lFile("trustpolicy", "", srcC08, "NotationModel.Src.TypesC08")
		}},
	)
}

// the wildcard constant of internal/trustpolicy is the regenerated fact; the library calls go to
// the oracles of TypesC08 (a namespace of their own, so that no other property's types clash)
var c08Subst = map[string]string{
	"trustpolicy.Wildcard": "(String.ofList NotationModel.Facts.c08Wildcard)",
}

var c08Calls = map[string]string{
	"strings.LastIndex": "C08lib.LastIndex",
	"strings.TrimSpace": "C08lib.TrimSpace",
}

func c08CallSubst(extra map[string]string) map[string]string {
	m := map[string]string{}
	for k, v := range c08Calls {
		m[k] = v
	}
	for k, v := range extra {
		m[k] = v
	}
	return m
}

var srcC08 = []*g2lTarget{
	{
		// validateRegistryScopeFormat (two regular expressions) is a PARAMETER
		file: c08OCI, fn: "getArtifactPathFromReference", classSlices: true, leanName: "getArtifactPathFromReference",
		params: "(validFmt : String → Option GoLite.Err) (artifactReference : String)",
		ret:    "String × Option GoLite.Err", retOpt: []bool{false, true},
		optVars:   []string{"err"},
		subst:     c08Subst,
		callSubst: c08CallSubst(map[string]string{"validateRegistryScopeFormat": "validFmt"}),
	},
	{
		file: c08OCI, recv: "OCIDocument", fn: "GetApplicableTrustPolicy", recvName: "policyDoc", leanName: "OCIDocument.GetApplicableTrustPolicy",
		params: "(validFmt : String → Option GoLite.Err) (policyDoc : OCIDocument) (artifactReference : String)",
		ret:    "Option OCITrustPolicy × Option GoLite.Err", retOpt: []bool{true, true},
		optVars:   []string{"err"},
		subst:     c08Subst,
		callSubst: c08CallSubst(map[string]string{"getArtifactPathFromReference": "getArtifactPathFromReference validFmt"}),
	},
	{
		file: c08Blob, recv: "BlobDocument", fn: "GetApplicableTrustPolicy", recvName: "policyDoc", leanName: "BlobDocument.GetApplicableTrustPolicy",
		params: "(policyDoc : BlobDocument) (policyName : String)",
		ret:    "Option BlobTrustPolicy × Option GoLite.Err", retOpt: []bool{true, true},
		subst:     c08Subst,
		callSubst: c08CallSubst(nil),
	},
	{
		file: c08Blob, recv: "BlobDocument", fn: "GetGlobalTrustPolicy", recvName: "policyDoc", leanName: "BlobDocument.GetGlobalTrustPolicy",
		params: "(policyDoc : BlobDocument)",
		ret:    "Option BlobTrustPolicy × Option GoLite.Err", retOpt: []bool{true, true},
		subst:     c08Subst,
		callSubst: c08CallSubst(nil),
	},
}

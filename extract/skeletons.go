package main

import (
	"fmt"
	"go/ast"
	"strings"
)

// callsIn lists, in source order, the calls in a function body whose rendered name has one
// of the given prefixes; closures (deferred clean-up) are skipped.
func callsIn(body *ast.BlockStmt, prefixes ...string) []*ast.CallExpr {
	var out []*ast.CallExpr
	ast.Inspect(body, func(n ast.Node) bool {
		if _, ok := n.(*ast.FuncLit); ok {
			return false
		}
		if c, ok := n.(*ast.CallExpr); ok {
			nm := callName(c)
			for _, p := range prefixes {
				if strings.HasPrefix(nm, p) {
					out = append(out, c)
					break
				}
			}
		}
		return true
	})
	return out
}

// genSkeletons: call skeleton of file.WriteFile, the WriteFile call in crl.Set, the read
// call in crl.Get, the body of crl.fileName; clone() field classification.
func genSkeletons() string {
	var b strings.Builder
	ff := parseFile("internal/file/file.go")
	wf := mustFunc(ff, "internal/file/file.go", "", "WriteFile")
	var params []string
	for _, p := range wf.Type.Params.List {
		for _, n := range p.Names {
			params = append(params, n.Name)
		}
	}
	var steps []string
	for _, c := range callsIn(wf.Body, "os.", "tempFile.") {
		nm := callName(c)
		if nm == "tempFile.Name" {
			continue
		}
		var args []string
		for _, a := range c.Args {
			args = append(args, exprText(a))
		}
		steps = append(steps, nm+"("+strings.Join(args, ",")+")")
	}
	fmt.Fprintf(&b, "/-- parameters of `file.WriteFile` -/\ndef writeFileParams : List String := %s\n\n", leanStrList(params))
	fmt.Fprintf(&b, "/-- file-system calls of `file.WriteFile` on its success path, in source order -/\ndef writeFileSteps : List String := %s\n\n", leanStrList(steps))
	cs := consts(ff)
	if _, ok := cs["tempFileNamePrefix"]; !ok {
		fail("internal/file/file.go: tempFileNamePrefix not found")
	}
	fmt.Fprintf(&b, "def tempFileNamePrefix : String := %s\n\n", leanStr(cs["tempFileNamePrefix"]))

	cf := parseFile("verifier/crl/crl.go")
	set := mustFunc(cf, "verifier/crl/crl.go", "FileCache", "Set")
	var setCalls []string
	for _, c := range callsIn(set.Body, "file.", "os.") {
		setCalls = append(setCalls, exprText(c))
	}
	get := mustFunc(cf, "verifier/crl/crl.go", "FileCache", "Get")
	var getCalls []string
	for _, c := range callsIn(get.Body, "os.", "file.") {
		getCalls = append(getCalls, exprText(c))
	}
	fn := mustFunc(cf, "verifier/crl/crl.go", "FileCache", "fileName")
	var fnCalls []string
	for _, c := range callsIn(fn.Body, "sha256.", "hex.", "sha512.", "md5.", "base64.", "filepath.", "url.", "strings.") {
		fnCalls = append(fnCalls, callName(c))
	}
	fmt.Fprintf(&b, "/-- file-system calls of `crl.FileCache.Set` -/\ndef crlSetCalls : List String := %s\n\n", leanStrList(setCalls))
	fmt.Fprintf(&b, "/-- file-system calls of `crl.FileCache.Get` -/\ndef crlGetCalls : List String := %s\n\n", leanStrList(getCalls))
	fmt.Fprintf(&b, "/-- calls in `crl.FileCache.fileName` -/\ndef crlFileNameCalls : List String := %s\n\n", leanStrList(fnCalls))

	// clone(): per field, fresh allocation or shared reference / plain value
	cloneFields := func(file, recv string) string {
		f := parseFile(file)
		cl := mustFunc(f, file, recv, "clone")
		var items []string
		ast.Inspect(cl.Body, func(n ast.Node) bool {
			lit, ok := n.(*ast.CompositeLit)
			if !ok {
				return true
			}
			for _, el := range lit.Elts {
				kv, ok := el.(*ast.KeyValueExpr)
				if !ok {
					continue
				}
				kind := "copied:" + exprText(kv.Value)
				if c, ok := kv.Value.(*ast.CallExpr); ok {
					switch {
					case callName(c) == "append" && len(c.Args) == 2 && strings.HasSuffix(exprText(c.Args[0]), "(nil)"):
						kind = "fresh-slice"
					case strings.HasSuffix(callName(c), ".clone"):
						kind = "deep-clone"
					}
				}
				items = append(items, fmt.Sprintf("(%s, %s)", leanStr(kv.Key.(*ast.Ident).Name), leanStr(kind)))
			}
			return false
		})
		if len(items) == 0 {
			fail("%s: %s.clone has no composite literal", file, recv)
		}
		return "[" + strings.Join(items, ", ") + "]"
	}
	fmt.Fprintf(&b, "/-- `OCITrustPolicy.clone`: how each field of the copy is produced -/\ndef ociCloneFields : List (String × String) := %s\n\n", cloneFields("verifier/trustpolicy/oci.go", "OCITrustPolicy"))
	fmt.Fprintf(&b, "/-- `BlobTrustPolicy.clone` -/\ndef blobCloneFields : List (String × String) := %s\n\n", cloneFields("verifier/trustpolicy/blob.go", "BlobTrustPolicy"))
	// SignatureVerification.clone allocates a new Override map
	tf := parseFile("verifier/trustpolicy/trustpolicy.go")
	sv := mustFunc(tf, "verifier/trustpolicy/trustpolicy.go", "SignatureVerification", "clone")
	makesMap := false
	ast.Inspect(sv.Body, func(n ast.Node) bool {
		if c, ok := n.(*ast.CallExpr); ok && callName(c) == "make" {
			if _, ok := c.Args[0].(*ast.MapType); ok {
				makesMap = true
			}
		}
		return true
	})
	fmt.Fprintf(&b, "/-- `SignatureVerification.clone` allocates a fresh Override map -/\ndef sigVerificationCloneMakesMap : Bool := %s\n", leanBool(makesMap))
	return b.String()
}

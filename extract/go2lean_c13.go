package main

// Translated-source tie of C13 (docs/TIE_BRIEF.md): the functions that decide whether a named
// trust store loads and which certificates it yields, translated on every run.
//
//	SrcC13  (package truststore, verifier/truststore/truststore.go): Types and the three type
//	        constants, isValidStoreType, ValidateCertificates, isRootCACertificate,
//	        x509TrustStore.GetCertificates
//	SrcC13b (package file, internal/file/file.go): IsValidFileName
//	SrcC13c (package dir, dir/path.go): X509TrustStoreDir
//
// The two helper packages are generated into namespaces BELOW truststore (truststore.file,
// truststore.dir) so that they do not meet the translation of the same functions other properties
// make; inside the namespace truststore `file.IsValidFileName` / `dir.X509TrustStoreDir` resolve to them.
//
// ORACLES (lean/NotationModel/Src/TypesC13.lean): the file system (os.Lstat, os.ReadDir,
// corex509.ReadCertificateFile, SysFS.SysPath) is a parameter `w : World` / a field of the trust
// store value; crypto/x509 (CheckSignature, CheckSignatureFrom) is defined on the abstract
// certificate; regexp, path.Join, filepath.Join, bytes.Equal, os.IsNotExist, internal/slices.Contains
// are library functions spelled there (or in GoLite).

func init() {
	families = append(families,
		family{"SrcC13b", func() string {
			return g2lFile("truststore.file", "", srcC13file, "NotationModel.Src.TypesC13")
		}},
		family{"SrcC13c", func() string {
			return g2lFile("truststore.dir", g2lDecls("dir/path.go", []string{"TrustStoreDir"}), srcC13dir, "NotationModel.Src.TypesC13")
		}},
		family{"SrcC13", func() string {
			decls := g2lDecls(c13TS, []string{"TypeCA", "TypeSigningAuthority", "TypeTSA", "Types"})
			return g2lFile("truststore", decls, srcC13, "NotationModel.Src.TypesC13",
				"NotationModel.Generated.SrcC13b", "NotationModel.Generated.SrcC13c")
		}})
}

const c13TS = "verifier/truststore/truststore.go"

var srcC13file = []*g2lTarget{
	{
		file: "internal/file/file.go", fn: "IsValidFileName", leanName: "IsValidFileName",
		params: "(fileName : String)", ret: "Bool", retOpt: []bool{false},
	},
}

var srcC13dir = []*g2lTarget{
	{
		file: "dir/path.go", fn: "X509TrustStoreDir", leanName: "X509TrustStoreDir",
		params: "(items : List String)", ret: "String", retOpt: []bool{false},
	},
}

var srcC13 = []*g2lTarget{
	{
		file: c13TS, fn: "isValidStoreType", leanName: "isValidStoreType",
		params: "(storeType : «Type»)", ret: "Bool", retOpt: []bool{false},
	},
	{
		file: c13TS, fn: "ValidateCertificates", leanName: "ValidateCertificates",
		params: "(certs : List x509.Certificate)", ret: "Option GoLite.Err", retOpt: []bool{true},
	},
	{
		file: c13TS, fn: "isRootCACertificate", leanName: "isRootCACertificate",
		params: "(cert : x509.Certificate)", ret: "Option GoLite.Err", retOpt: []bool{true},
	},
	{
		file: c13TS, recv: "x509TrustStore", fn: "GetCertificates", recvName: "trustStore", leanName: "x509TrustStore.GetCertificates",
		params:  "(trustStore : x509TrustStore) (w : World) (_ctx : Unit) (storeType : «Type») (namedStore : String)",
		ret:     "List x509.Certificate × Option GoLite.Err",
		retOpt:  []bool{false, true},
		optVars: []string{"err"},
		callSubst: map[string]string{"os.Lstat": "w.Lstat", "os.ReadDir": "w.ReadDir",
			"corex509.ReadCertificateFile": "w.ReadCertificateFile", "string": "id",
			// the variadic dir.X509TrustStoreDir(items ...string), called with two items
			"dir.X509TrustStoreDir": "(fun a b => dir.X509TrustStoreDir [a, b])"},
	},
}

package main

import (
	"fmt"
	"go/ast"
	"strconv"
	"strings"
)

// genLevels: the four level tables, ValidationTypes, ValidationActions, VerificationLevels
// from verifier/trustpolicy/trustpolicy.go.
func genLevels() string {
	const file = "verifier/trustpolicy/trustpolicy.go"
	f := parseFile(file)
	cs := consts(f)
	// typed constants are declared with explicit types, value still a basic literal
	identList := func(name string) []string {
		e := findVar(f, name)
		cl, ok := e.(*ast.CompositeLit)
		if !ok {
			fail("%s: %s is not a composite literal", file, name)
		}
		var out []string
		for _, el := range cl.Elts {
			id, ok := el.(*ast.Ident)
			if !ok {
				fail("%s: %s has a non-identifier element", file, name)
			}
			out = append(out, id.Name)
		}
		return out
	}
	constVal := func(id string) string {
		v, ok := cs[id]
		if !ok {
			fail("%s: constant %s not found", file, id)
		}
		return v
	}
	var b strings.Builder
	var types, actions []string
	for _, id := range identList("ValidationTypes") {
		types = append(types, constVal(id))
	}
	for _, id := range identList("ValidationActions") {
		actions = append(actions, constVal(id))
	}
	fmt.Fprintf(&b, "/-- `ValidationTypes` of %s -/\ndef validationTypes : List String := %s\n\n", file, leanStrList(types))
	fmt.Fprintf(&b, "/-- `ValidationActions` -/\ndef validationActions : List String := %s\n\n", leanStrList(actions))
	fmt.Fprintf(&b, "/-- `VerificationLevels`, in order: (name, enforcement map as written in the source) -/\ndef levels : List (String × List (String × String)) :=\n  [")
	for i, lv := range identList("VerificationLevels") {
		e := findVar(f, lv)
		ue, ok := e.(*ast.UnaryExpr)
		if !ok {
			fail("%s: %s is not &VerificationLevel{...}", file, lv)
		}
		lit := ue.X.(*ast.CompositeLit)
		var name string
		var pairs []string
		for _, el := range lit.Elts {
			kv := el.(*ast.KeyValueExpr)
			switch kv.Key.(*ast.Ident).Name {
			case "Name":
				name, _ = strconv.Unquote(kv.Value.(*ast.BasicLit).Value)
			case "Enforcement":
				for _, p := range kv.Value.(*ast.CompositeLit).Elts {
					pkv := p.(*ast.KeyValueExpr)
					pairs = append(pairs, fmt.Sprintf("(%s, %s)", leanStr(constVal(pkv.Key.(*ast.Ident).Name)), leanStr(constVal(pkv.Value.(*ast.Ident).Name))))
				}
			}
		}
		if i > 0 {
			b.WriteString(",\n   ")
		}
		fmt.Fprintf(&b, "(%s, [%s])", leanStr(name), strings.Join(pairs, ", "))
	}
	b.WriteString("]\n\n")
	for _, c := range []string{"TypeIntegrity", "TypeAuthenticity", "TypeAuthenticTimestamp", "TypeExpiry", "TypeRevocation", "ActionEnforce", "ActionLog", "ActionSkip", "OptionAlways", "OptionAfterCertExpiry"} {
		fmt.Fprintf(&b, "def %s : String := %s\n", strings.ToLower(c[:1])+c[1:], leanStr(constVal(c)))
	}
	return b.String()
}

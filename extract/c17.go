package main

import (
	"fmt"
	"go/ast"
	"go/token"
	"os"
	"os/exec"
	"path/filepath"
	"strconv"
	"strings"
)

// C17 - facts about the plugin process runner (plugin/plugin.go, plugin/proto/errors.go):
// the output cap, which streams of the command are wrapped by the limit writer, whether
// the command is bound to the caller's context, whether (and to what) cmd.WaitDelay is
// set, the contract version the metadata validation requires and the error codes.
func init() { families = append(families, family{"C17", genC17}) }

// evalInt evaluates an integer constant expression made of literals, + - * << and
// identifiers resolvable through `env` (other constants of the file, time.* units in ms).
func evalInt(file string, e ast.Expr, env func(name string) (int64, bool)) int64 {
	switch x := e.(type) {
	case *ast.BasicLit:
		if x.Kind != token.INT {
			fail("%s: non-integer literal %s in a constant expression", file, x.Value)
		}
		v, err := strconv.ParseInt(strings.ReplaceAll(x.Value, "_", ""), 0, 64)
		if err != nil {
			fail("%s: cannot parse %s", file, x.Value)
		}
		return v
	case *ast.ParenExpr:
		return evalInt(file, x.X, env)
	case *ast.Ident:
		if v, ok := env(x.Name); ok {
			return v
		}
		fail("%s: cannot resolve identifier %s in a constant expression", file, x.Name)
	case *ast.SelectorExpr:
		if v, ok := env(exprText(x)); ok {
			return v
		}
		fail("%s: cannot resolve %s in a constant expression", file, exprText(x))
	case *ast.CallExpr:
		// a conversion such as int64(x) or time.Duration(x)
		if len(x.Args) == 1 {
			switch callName(x) {
			case "int64", "int", "time.Duration":
				return evalInt(file, x.Args[0], env)
			}
		}
		fail("%s: unsupported call %s in a constant expression", file, exprText(x))
	case *ast.BinaryExpr:
		a, b := evalInt(file, x.X, env), evalInt(file, x.Y, env)
		switch x.Op {
		case token.MUL:
			return a * b
		case token.ADD:
			return a + b
		case token.SUB:
			return a - b
		case token.SHL:
			return a << uint(b)
		case token.QUO:
			if b == 0 {
				fail("%s: division by zero in a constant expression", file)
			}
			return a / b
		}
		fail("%s: unsupported operator %s in a constant expression", file, x.Op)
	}
	fail("%s: unsupported constant expression %s", file, exprText(e))
	return 0
}

// frameworkDir locates the source of notation-plugin-framework-go as required by the tree's go.mod.
func frameworkDir() string {
	const mod = "github.com/notaryproject/notation-plugin-framework-go"
	cmd := exec.Command("go", "list", "-m", "-f", "{{.Dir}}", mod)
	cmd.Dir = repoRoot
	if out, err := cmd.Output(); err == nil {
		if d := strings.TrimSpace(string(out)); d != "" {
			if _, err := os.Stat(d); err == nil {
				return d
			}
		}
	}
	// fall back to go.mod + GOMODCACHE
	gm, err := os.ReadFile(filepath.Join(repoRoot, "go.mod"))
	if err != nil {
		fail("go.mod: %v", err)
	}
	version := ""
	for _, l := range strings.Split(string(gm), "\n") {
		f := strings.Fields(l)
		for i, w := range f {
			if w == mod && i+1 < len(f) {
				version = f[i+1]
			}
		}
	}
	if version == "" {
		fail("go.mod: no requirement on %s", mod)
	}
	cache := os.Getenv("GOMODCACHE")
	if cache == "" {
		if out, err := exec.Command("go", "env", "GOMODCACHE").Output(); err == nil {
			cache = strings.TrimSpace(string(out))
		}
	}
	d := filepath.Join(cache, mod+"@"+version)
	if _, err := os.Stat(d); err != nil {
		fail("cannot locate %s@%s in the module cache: %v", mod, version, err)
	}
	return d
}

// isFileScope reports whether obj is declared by a top-level var declaration of f.
func isFileScope(f *ast.File, obj *ast.Object) bool {
	for _, d := range f.Decls {
		gd, ok := d.(*ast.GenDecl)
		if !ok || gd.Tok != token.VAR {
			continue
		}
		for _, sp := range gd.Specs {
			if sp == obj.Decl {
				return true
			}
		}
	}
	return false
}

func parseAbs(path string) *ast.File {
	old := repoRoot
	repoRoot = ""
	defer func() { repoRoot = old }()
	return parseFile(path)
}

func genC17() string {
	const file = "plugin/plugin.go"
	f := parseFile(file)
	var b strings.Builder

	// the `io` used by plugin.go must be the repository's limit writer package
	ioPath := ""
	for _, im := range f.Imports {
		p, _ := strconv.Unquote(im.Path.Value)
		name := filepath.Base(p)
		if im.Name != nil {
			name = im.Name.Name
		}
		if name == "io" {
			ioPath = p
		}
	}
	const wantIO = "github.com/notaryproject/notation-go/internal/io"

	timeUnits := map[string]int64{ // in milliseconds; sub-millisecond units are not representable
		"time.Millisecond": 1, "time.Second": 1000, "time.Minute": 60000, "time.Hour": 3600000,
	}
	var env func(name string) (int64, bool)
	env = func(name string) (int64, bool) {
		if v, ok := timeUnits[name]; ok {
			return v, true
		}
		if strings.Contains(name, ".") {
			return 0, false
		}
		if e := findVar(f, name); e != nil {
			return evalInt(file, e, env), true
		}
		return 0, false
	}

	capExpr := findVar(f, "maxPluginOutputSize")
	if capExpr == nil {
		fail("%s: constant maxPluginOutputSize not found", file)
	}
	capVal := evalInt(file, capExpr, env)
	fmt.Fprintf(&b, "/-- `maxPluginOutputSize` of %s (bytes) -/\ndef maxPluginOutputSize : Nat := %d\n\n", file, capVal)

	out := mustFunc(f, file, "execCommander", "Output")
	// the context parameter of Output
	ctxParam := ""
	for _, p := range out.Type.Params.List {
		if exprText(p.Type) == "context.Context" && len(p.Names) > 0 {
			ctxParam = p.Names[0].Name
		}
	}
	// cmd := exec.CommandContext(ctx, ...) / exec.Command(...)
	cmdVar, ctxBound, built := "", false, false
	ast.Inspect(out.Body, func(n ast.Node) bool {
		as, ok := n.(*ast.AssignStmt)
		if !ok || len(as.Lhs) != 1 || len(as.Rhs) != 1 {
			return true
		}
		call, ok := as.Rhs[0].(*ast.CallExpr)
		if !ok {
			return true
		}
		switch callName(call) {
		case "exec.CommandContext":
			built = true
			cmdVar = exprText(as.Lhs[0])
			ctxBound = len(call.Args) > 0 && ctxParam != "" && exprText(call.Args[0]) == ctxParam
		case "exec.Command":
			built = true
			cmdVar = exprText(as.Lhs[0])
			ctxBound = false
		}
		return true
	})
	if !built {
		fail("%s: execCommander.Output builds no exec.Command / exec.CommandContext", file)
	}
	// cmd.Run() must be what executes the command
	runs := false
	ast.Inspect(out.Body, func(n ast.Node) bool {
		if call, ok := n.(*ast.CallExpr); ok && callName(call) == cmdVar+".Run" {
			runs = true
		}
		return true
	})
	if !runs {
		fail("%s: execCommander.Output does not call %s.Run()", file, cmdVar)
	}

	// assignments to fields of cmd
	assigned := map[string]ast.Expr{}
	ast.Inspect(out.Body, func(n ast.Node) bool {
		as, ok := n.(*ast.AssignStmt)
		if !ok || len(as.Lhs) != 1 || len(as.Rhs) != 1 {
			return true
		}
		if sel, ok := as.Lhs[0].(*ast.SelectorExpr); ok && exprText(sel.X) == cmdVar {
			assigned[sel.Sel.Name] = as.Rhs[0]
		}
		return true
	})
	limitOf := func(field string) string {
		e, ok := assigned[field]
		if !ok {
			fail("%s: execCommander.Output does not assign %s.%s", file, cmdVar, field)
		}
		call, ok := e.(*ast.CallExpr)
		if !ok || callName(call) != "io.LimitWriter" || len(call.Args) != 2 || ioPath != wantIO {
			return "none"
		}
		return fmt.Sprintf("some %d", evalInt(file, call.Args[1], env))
	}
	fmt.Fprintf(&b, "/-- the command is built with `exec.CommandContext(%s, …)` on the caller's context -/\ndef commandContextBound : Bool := %s\n\n", ctxParam, leanBool(ctxBound))
	fmt.Fprintf(&b, "/-- `%s.Stdout = io.LimitWriter(&buf, n)` with the repository's internal/io: `some n`; anything else: `none` -/\ndef stdoutLimit : Option Nat := %s\n\n", cmdVar, limitOf("Stdout"))
	fmt.Fprintf(&b, "/-- the same for `%s.Stderr` -/\ndef stderrLimit : Option Nat := %s\n\n", cmdVar, limitOf("Stderr"))
	wd := "none"
	if e, ok := assigned["WaitDelay"]; ok {
		ms := evalInt(file, e, env)
		if ms > 0 { // a zero WaitDelay is os/exec's "unset"
			wd = fmt.Sprintf("some %d", ms)
		}
	}
	fmt.Fprintf(&b, "/-- `%s.WaitDelay` in milliseconds as assigned in execCommander.Output (`none`: not assigned or zero) -/\ndef waitDelayMs : Option Nat := %s\n\n", cmdVar, wd)

	// (validate() itself is translated to Lean by go2lean_c17.go and tied to the model there)

	// package-level variables (mutable state shared by all calls) that run / Output touch;
	// error sentinels (errors.New / fmt.Errorf initialisers) do not count
	pkgVars := map[string]bool{}
	entries, err := os.ReadDir(filepath.Join(repoRoot, "plugin"))
	if err != nil {
		fail("plugin: %v", err)
	}
	for _, e := range entries {
		n := e.Name()
		if e.IsDir() || !strings.HasSuffix(n, ".go") || strings.HasSuffix(n, "_test.go") {
			continue
		}
		pf := parseFile(filepath.Join("plugin", n))
		for _, d := range pf.Decls {
			gd, ok := d.(*ast.GenDecl)
			if !ok || gd.Tok != token.VAR {
				continue
			}
			for _, sp := range gd.Specs {
				vs := sp.(*ast.ValueSpec)
				for i, nm := range vs.Names {
					if i < len(vs.Values) {
						if call, ok := vs.Values[i].(*ast.CallExpr); ok {
							if cn := callName(call); cn == "errors.New" || cn == "fmt.Errorf" {
								continue
							}
						}
					}
					pkgVars[nm.Name] = true
				}
			}
		}
	}
	seen := map[string]bool{}
	var globals []string
	for _, fd := range []*ast.FuncDecl{mustFunc(f, file, "", "run"), out} {
		ast.Inspect(fd.Body, func(n ast.Node) bool {
			if sel, ok := n.(*ast.SelectorExpr); ok {
				// x.Sel: only x can be a package-level variable
				ast.Inspect(sel.X, func(m ast.Node) bool {
					if id, ok := m.(*ast.Ident); ok && pkgVars[id.Name] && id.Obj != nil && id.Obj.Kind == ast.Var && !seen[id.Name] {
						if _, isSpec := id.Obj.Decl.(*ast.ValueSpec); isSpec {
							seen[id.Name] = true
							globals = append(globals, id.Name)
						}
					}
					return true
				})
				return false
			}
			if id, ok := n.(*ast.Ident); ok && pkgVars[id.Name] && !seen[id.Name] {
				// resolved by the parser to a file-scope declaration, or unresolved (declared in another file)
				local := id.Obj != nil
				if local {
					_, isSpec := id.Obj.Decl.(*ast.ValueSpec)
					local = !isSpec || !isFileScope(f, id.Obj)
				}
				if !local {
					seen[id.Name] = true
					globals = append(globals, id.Name)
				}
			}
			return true
		})
	}
	fmt.Fprintf(&b, "/-- package-level variables referenced by `run` and `execCommander.Output` (state shared between calls) -/\ndef runGlobals : List String := %s\n\n", leanStrList(globals))

	// contract version and error codes live in notation-plugin-framework-go
	fw := frameworkDir()
	pf := parseAbs(filepath.Join(fw, "plugin", "proto.go"))
	cv, ok := consts(pf)["ContractVersion"]
	if !ok {
		fail("%s/plugin/proto.go: constant ContractVersion not found", fw)
	}
	fmt.Fprintf(&b, "/-- `plugin.ContractVersion` of notation-plugin-framework-go -/\ndef contractVersion : String := %s\n\n", leanStr(cv))

	const efile = "plugin/proto/errors.go"
	ef := parseFile(efile)
	fe := parseAbs(filepath.Join(fw, "plugin", "errors.go"))
	fwConsts := consts(fe)
	var codes []string
	for _, d := range ef.Decls {
		gd, ok := d.(*ast.GenDecl)
		if !ok || gd.Tok != token.CONST {
			continue
		}
		for _, sp := range gd.Specs {
			vs := sp.(*ast.ValueSpec)
			for i, n := range vs.Names {
				if !strings.HasPrefix(n.Name, "ErrorCode") || i >= len(vs.Values) {
					continue
				}
				sel, ok := vs.Values[i].(*ast.SelectorExpr)
				if !ok {
					fail("%s: %s is not an alias of a framework constant", efile, n.Name)
				}
				v, ok := fwConsts[sel.Sel.Name]
				if !ok {
					fail("%s: %s refers to %s which the framework does not declare", efile, n.Name, exprText(sel))
				}
				codes = append(codes, fmt.Sprintf("(%s, %s)", leanStr(n.Name), leanStr(v)))
			}
		}
	}
	if len(codes) == 0 {
		fail("%s: no ErrorCode constants found", efile)
	}
	fmt.Fprintf(&b, "/-- the error codes of %s: (constant, wire value) -/\ndef errorCodes : List (String × String) :=\n  [%s]\n", efile, strings.Join(codes, ",\n   "))
	return b.String()
}

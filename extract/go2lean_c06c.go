package main

// C05/C06: how the verifier's constructors wire the caller's revocation checkers
// (verifier/verifier.go), translated on every run into lean/NotationModel/Generated/SrcC06c.lean:
// `(*verifier).setRevocation` (the receiver is handed back as a second result) and the deprecated
// `NewWithOptions` (which must pass every option on). `revocation.NewWithOptions` (notation-core-go)
// and `NewVerifierWithOptions` are oracles (Src/TypesC06c.lean).

func init() {
	families = append(families, family{"SrcC06c", func() string {
		return g2lFile("c06c", "", srcC06c, "NotationModel.Src.TypesC06c")
	}})
}

var srcC06c = []*g2lTarget{
	{
		file: "verifier/verifier.go", recv: "verifier", fn: "setRevocation", recvName: "v", leanName: "setRevocation",
		params:    "(env : c06c.Env) (v : c06c.verifier) (verifierOptions : c06c.VerifierOptions)",
		ret:       "Option GoLite.Err × c06c.verifier",
		retOpt:    []bool{true},
		optVars:   []string{"err", "revocationTimestampingValidator", "revocationCodeSigningValidator", "revocationClient"},
		optFields: []string{"RevocationTimestampingValidator", "RevocationCodeSigningValidator", "RevocationClient", "revocationTimestampingValidator", "revocationCodeSigningValidator", "revocationClient"},
		captures:  []string{"v"},
		mutParams: []string{"v"},
		callSubst: map[string]string{"revocation.NewWithOptions": "env.NewWithOptions"},
	},
	{
		file: "verifier/verifier.go", fn: "NewWithOptions", leanName: "NewWithOptions",
		params:    "(env : c06c.Env) (ociTrustPolicy : Option c06c.OCIDocument) (trustStore : Option c06c.TrustStore) (pluginManager : Option c06c.PluginManager) (opts : c06c.VerifierOptions)",
		ret:       "Option c06c.verifier × Option GoLite.Err",
		retOpt:    []bool{true, true},
		optVars:   []string{"ociTrustPolicy", "trustStore", "pluginManager"},
		optFields: []string{"OCITrustPolicy", "PluginManager"},
		mutParams: []string{"opts"},
		ownedVars: []string{"opts"}, // a struct parameter passed by value: the function's own copy
		callSubst: map[string]string{"NewVerifierWithOptions": "env.NewVerifierWithOptions"},
	},
}

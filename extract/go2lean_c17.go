package main

// Translated-source tie of C17 (docs/TIE_BRIEF.md): the pure decision code of "plugin processes are
// contained" - the limit writer's budget arithmetic, the metadata checks, and what `run` makes of
// the outcome of the plugin process.

func init() {
	families = append(families,
		family{"SrcC17", func() string {
			return g2lFile("plugin", "", srcC17, "NotationModel.Src.TypesC17")
		}},
		family{"SrcC17b", func() string {
			return g2lFile("io", "", srcC17b, "NotationModel.Src.TypesC17")
		}},
	)
}

// package plugin (plugin/plugin.go)
var srcC17 = []*g2lTarget{
	{
		file: "plugin/plugin.go", fn: "validate", leanName: "validate",
		params: "(metadata : plugin.GetMetadataResponse)",
		ret:    "Option GoLite.Err",
		retOpt: []bool{true},
	},
	{
		// `run` (process + pipes + decoding into &metadata) is an oracle: a parameter that returns the new
		// value of metadata and the error
		file: "plugin/plugin.go", recv: "CLIPlugin", fn: "GetMetadata", recvName: "p", leanName: "CLIPlugin.GetMetadata",
		params: "(runO : String → String → plugin.GetMetadataRequest → plugin.GetMetadataResponse → " +
			"plugin.GetMetadataResponse × Option GoLite.Err) (p : CLIPlugin) (req : plugin.GetMetadataRequest)",
		ret:       "Option plugin.GetMetadataResponse × Option GoLite.Err",
		retOpt:    []bool{true, true},
		dropArgs:  []string{"ctx"},
		outArgs:   map[string]int{"run": 4},
		callSubst: map[string]string{"run": "runO"},
	},
	{
		// what `run` makes of the outcome of executor.Output: the statements after that call. json.Unmarshal is
		// an oracle (class json.Target: for every type decoded into, ANY function from the bytes and the old
		// value to the new value and an error); `resp`, the caller's response object, is threaded through.
		file: "plugin/plugin.go", fn: "run", leanName: "runDecision", after: "executor.Output",
		outer: []string{"pluginName", "req", "resp", "logger", "err", "stdout", "stderr"},
		params: "{Resp : Type} [json.Target proto.RequestError] [json.Target Resp] " +
			"(err : Option GoLite.Err) (resp : Resp) (stdout : List UInt8) (stderr : List UInt8)",
		ret:       "Option GoLite.Err × Option GoLite.Err × Resp",
		retOpt:    []bool{true},
		captures:  []string{"err", "resp"},
		dropCalls: g2lLogging,
		outArgs:   map[string]int{"json.Unmarshal": 1},
	},
}

// package io (internal/io/limitedwriter.go)
var srcC17b = []*g2lTarget{
	{
		// the receiver is a pointer whose field N the method updates: `l` is threaded through (capture) and
		// handed back after the results; the underlying writer `l.W` is an oracle (a field holding ANY function
		// from the bytes it is handed to a count and an error)
		file: "internal/io/limitedwriter.go", recv: "LimitedWriter", fn: "Write", recvName: "l", leanName: "LimitedWriter.Write",
		params:    "(l : LimitedWriter) (p : List UInt8)",
		ret:       "Int × Option GoLite.Err × LimitedWriter",
		retOpt:    []bool{false, true},
		captures:  []string{"l"},
		callSubst: map[string]string{"int64": "GoLite.int64"},
	},
}

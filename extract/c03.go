package main

import (
	"fmt"
	"go/ast"
	"go/token"
	"strconv"
	"strings"
)

// C03 - facts about trust store loading (verifier/helpers.go, verifier/truststore/truststore.go):
// the values of the store type constants and of `truststore.Types`, and the separator the
// loading loop cuts a trust store value at.
func init() { families = append(families, family{"C03", genC03}) }

// c03LeanChars renders a Go string as a Lean `List Char` literal.
func c03LeanChars(s string) string {
	var q []string
	for _, r := range s {
		switch {
		case r == '\'':
			q = append(q, `'\''`)
		case r == '\\':
			q = append(q, `'\\'`)
		case r < 0x20 || r >= 0x7f:
			fail("C03: unexpected character %q in a constant", r)
		default:
			q = append(q, "'"+string(r)+"'")
		}
	}
	return "[" + strings.Join(q, ", ") + "]"
}

func genC03() string {
	var b strings.Builder
	const tsFile = "verifier/truststore/truststore.go"
	tf := parseFile(tsFile)
	// typed constants: `TypeCA Type = "ca"`
	cs := consts(tf)
	val := func(name string) string {
		v, ok := cs[name]
		if !ok {
			fail("%s: constant %s not found", tsFile, name)
		}
		return v
	}
	fmt.Fprintf(&b, "/-- `TypeCA` of %s -/\ndef c03TypeCA : List Char := %s\n", tsFile, c03LeanChars(val("TypeCA")))
	fmt.Fprintf(&b, "/-- `TypeSigningAuthority` -/\ndef c03TypeSigningAuthority : List Char := %s\n", c03LeanChars(val("TypeSigningAuthority")))
	fmt.Fprintf(&b, "/-- `TypeTSA` -/\ndef c03TypeTSA : List Char := %s\n", c03LeanChars(val("TypeTSA")))
	e := findVar(tf, "Types")
	if e == nil {
		fail("%s: Types not found", tsFile)
	}
	cl, ok := e.(*ast.CompositeLit)
	if !ok {
		fail("%s: Types is not a composite literal", tsFile)
	}
	var types []string
	for _, el := range cl.Elts {
		id, ok := el.(*ast.Ident)
		if !ok {
			fail("%s: element %s of Types is not a constant name", tsFile, exprText(el))
		}
		types = append(types, c03LeanChars(val(id.Name)))
	}
	fmt.Fprintf(&b, "/-- `Types` of %s (values) -/\ndef c03Types : List (List Char) := [%s]\n\n", tsFile, strings.Join(types, ", "))

	const hFile = "verifier/helpers.go"
	hf := parseFile(hFile)
	// (which store type each signing scheme is mapped to is no longer a fact read off the syntax of the
	// switches: loadX509TrustStores / loadX509TSATrustStores are translated to Lean on every run,
	// extract/go2lean_c03.go, and Props/C03.lean proves what they map to for all inputs)

	// the separator of strings.Cut in the loading loop
	lf := mustFunc(hf, hFile, "", "loadX509TrustStoresWithType")
	var seps []string
	for _, c := range callsIn(lf.Body, "strings.Cut") {
		if callName(c) == "strings.Cut" && len(c.Args) == 2 {
			bl, ok := c.Args[1].(*ast.BasicLit)
			if !ok || bl.Kind != token.STRING {
				fail("%s: loadX509TrustStoresWithType cuts at %s, expected a literal", hFile, exprText(c.Args[1]))
			}
			v, _ := strconv.Unquote(bl.Value)
			seps = append(seps, v)
		}
	}
	if len(seps) != 1 || len(seps[0]) != 1 {
		fail("%s: loadX509TrustStoresWithType: expected exactly one strings.Cut at a one-character separator, found %q", hFile, seps)
	}
	fmt.Fprintf(&b, "/-- the separator loadX509TrustStoresWithType cuts a trust store value at -/\ndef c03Separator : Char := %s\n", strings.TrimSuffix(strings.TrimPrefix(c03LeanChars(seps[0]), "["), "]"))
	return b.String()
}

package main

import (
	"fmt"
	"go/ast"
	"go/token"
	"strconv"
	"strings"
)

// C03 - facts about trust store loading (verifier/helpers.go, verifier/truststore/truststore.go):
// the values of the store type constants and of `truststore.Types`, which store type each
// signing scheme is mapped to by the switches of loadX509TrustStores / loadX509TSATrustStores,
// and the separator the loading loop cuts a trust store value at.
func init() { families = append(families, family{"C03", genC03}) }

// c03LeanChars renders a Go string as a Lean `List Char` literal.
func c03LeanChars(s string) string {
	var q []string
	for _, r := range s {
		switch {
		case r == '\'':
			q = append(q, `'\''`)
		case r == '\\':
			q = append(q, `'\\'`)
		case r < 0x20 || r >= 0x7f:
			fail("C03: unexpected character %q in a constant", r)
		default:
			q = append(q, "'"+string(r)+"'")
		}
	}
	return "[" + strings.Join(q, ", ") + "]"
}

type c03Case struct {
	scheme string // e.g. signature.SigningSchemeX509
	typ    string // e.g. TypeCA (constant of package truststore)
}

// c03Switch reads `switch scheme { case signature.X: typeToLoad = truststore.Y ... default: return nil, err }`.
func c03Switch(file string, fd *ast.FuncDecl) (cases []c03Case, defaultReturns bool) {
	var sw *ast.SwitchStmt
	ast.Inspect(fd.Body, func(n ast.Node) bool {
		if s, ok := n.(*ast.SwitchStmt); ok && sw == nil {
			sw = s
		}
		return true
	})
	if sw == nil {
		fail("%s: %s has no switch statement", file, fd.Name.Name)
	}
	if exprText(sw.Tag) != "scheme" {
		fail("%s: %s switches on %s, expected the signing scheme", file, fd.Name.Name, exprText(sw.Tag))
	}
	for _, st := range sw.Body.List {
		cc := st.(*ast.CaseClause)
		if cc.List == nil {
			// default: must return an error
			for _, s := range cc.Body {
				if r, ok := s.(*ast.ReturnStmt); ok && len(r.Results) == 2 && exprText(r.Results[0]) == "nil" && exprText(r.Results[1]) != "nil" {
					defaultReturns = true
				}
			}
			continue
		}
		if len(cc.Body) != 1 {
			fail("%s: %s: a case of the scheme switch has %d statements, expected one assignment", file, fd.Name.Name, len(cc.Body))
		}
		as, ok := cc.Body[0].(*ast.AssignStmt)
		if !ok || len(as.Lhs) != 1 || len(as.Rhs) != 1 || exprText(as.Lhs[0]) != "typeToLoad" || as.Tok != token.ASSIGN {
			fail("%s: %s: a case of the scheme switch is not `typeToLoad = ...`", file, fd.Name.Name)
		}
		sel, ok := as.Rhs[0].(*ast.SelectorExpr)
		if !ok || exprText(sel.X) != "truststore" {
			fail("%s: %s: typeToLoad is assigned %s, expected a truststore constant", file, fd.Name.Name, exprText(as.Rhs[0]))
		}
		for _, e := range cc.List {
			cases = append(cases, c03Case{exprText(e), sel.Sel.Name})
		}
	}
	// the switch result must go straight into the typed loader
	found := false
	for _, c := range callsIn(fd.Body, "loadX509TrustStoresWithType") {
		if len(c.Args) == 5 && exprText(c.Args[1]) == "typeToLoad" && exprText(c.Args[3]) == "trustStores" {
			found = true
		}
	}
	if !found {
		fail("%s: %s does not hand typeToLoad and trustStores to loadX509TrustStoresWithType", file, fd.Name.Name)
	}
	return
}

func genC03() string {
	var b strings.Builder
	const tsFile = "verifier/truststore/truststore.go"
	tf := parseFile(tsFile)
	// typed constants: `TypeCA Type = "ca"`
	cs := consts(tf)
	val := func(name string) string {
		v, ok := cs[name]
		if !ok {
			fail("%s: constant %s not found", tsFile, name)
		}
		return v
	}
	fmt.Fprintf(&b, "/-- `TypeCA` of %s -/\ndef c03TypeCA : List Char := %s\n", tsFile, c03LeanChars(val("TypeCA")))
	fmt.Fprintf(&b, "/-- `TypeSigningAuthority` -/\ndef c03TypeSigningAuthority : List Char := %s\n", c03LeanChars(val("TypeSigningAuthority")))
	fmt.Fprintf(&b, "/-- `TypeTSA` -/\ndef c03TypeTSA : List Char := %s\n", c03LeanChars(val("TypeTSA")))
	e := findVar(tf, "Types")
	if e == nil {
		fail("%s: Types not found", tsFile)
	}
	cl, ok := e.(*ast.CompositeLit)
	if !ok {
		fail("%s: Types is not a composite literal", tsFile)
	}
	var types []string
	for _, el := range cl.Elts {
		id, ok := el.(*ast.Ident)
		if !ok {
			fail("%s: element %s of Types is not a constant name", tsFile, exprText(el))
		}
		types = append(types, c03LeanChars(val(id.Name)))
	}
	fmt.Fprintf(&b, "/-- `Types` of %s (values) -/\ndef c03Types : List (List Char) := [%s]\n\n", tsFile, strings.Join(types, ", "))

	const hFile = "verifier/helpers.go"
	hf := parseFile(hFile)
	cases, def := c03Switch(hFile, mustFunc(hf, hFile, "", "loadX509TrustStores"))
	get := func(cases []c03Case, scheme, fn string) string {
		var hit []string
		for _, c := range cases {
			if c.scheme == scheme {
				hit = append(hit, c.typ)
			}
		}
		if len(hit) != 1 {
			fail("%s: %s has %d cases for %s", hFile, fn, len(hit), scheme)
		}
		return c03LeanChars(val(hit[0]))
	}
	fmt.Fprintf(&b, "/-- loadX509TrustStores (%s): store type loaded for `signature.SigningSchemeX509` -/\ndef c03TypeForX509 : List Char := %s\n", hFile, get(cases, "signature.SigningSchemeX509", "loadX509TrustStores"))
	fmt.Fprintf(&b, "/-- loadX509TrustStores: store type loaded for `signature.SigningSchemeX509SigningAuthority` -/\ndef c03TypeForSigningAuthority : List Char := %s\n", get(cases, "signature.SigningSchemeX509SigningAuthority", "loadX509TrustStores"))
	fmt.Fprintf(&b, "/-- loadX509TrustStores: number of scheme cases; any other scheme is an error -/\ndef c03SchemeCases : Nat := %d\ndef c03SchemeDefaultIsError : Bool := %s\n\n", len(cases), leanBool(def))

	tcases, tdef := c03Switch(hFile, mustFunc(hf, hFile, "", "loadX509TSATrustStores"))
	fmt.Fprintf(&b, "/-- loadX509TSATrustStores (timestamp path only): store type loaded for `signature.SigningSchemeX509` -/\ndef c03TSATypeForX509 : List Char := %s\n", get(tcases, "signature.SigningSchemeX509", "loadX509TSATrustStores"))
	fmt.Fprintf(&b, "def c03TSASchemeCases : Nat := %d\ndef c03TSASchemeDefaultIsError : Bool := %s\n\n", len(tcases), leanBool(tdef))

	// the separator of strings.Cut in the loading loop
	lf := mustFunc(hf, hFile, "", "loadX509TrustStoresWithType")
	var seps []string
	for _, c := range callsIn(lf.Body, "strings.Cut") {
		if callName(c) == "strings.Cut" && len(c.Args) == 2 {
			bl, ok := c.Args[1].(*ast.BasicLit)
			if !ok || bl.Kind != token.STRING {
				fail("%s: loadX509TrustStoresWithType cuts at %s, expected a literal", hFile, exprText(c.Args[1]))
			}
			v, _ := strconv.Unquote(bl.Value)
			seps = append(seps, v)
		}
	}
	if len(seps) != 1 || len(seps[0]) != 1 {
		fail("%s: loadX509TrustStoresWithType: expected exactly one strings.Cut at a one-character separator, found %q", hFile, seps)
	}
	fmt.Fprintf(&b, "/-- the separator loadX509TrustStoresWithType cuts a trust store value at -/\ndef c03Separator : Char := %s\n", strings.TrimSuffix(strings.TrimPrefix(c03LeanChars(seps[0]), "["), "]"))
	return b.String()
}

package main

// C20: `file.CopyToDir` (internal/file/file.go) - how one plugin file reaches the plugin directory -
// translated on every run into lean/NotationModel/Generated/SrcC20c.lean by the protocol translator
// (go2lean_fs.go): every operating-system call logged in order with its arguments, the two
// `defer x.Close()` by their meaning (Src/TypesC20c.lean).

func init() {
	families = append(families,
		family{"SrcC20c", func() string { return fsFile("copyproto", srcC20c, "NotationModel.Src.TypesC20c") }})
}

var srcC20c = []*fsTarget{
	{
		file: "internal/file/file.go", fn: "CopyToDir", leanName: "CopyToDir", monad: "CP",
		params: "(src dst : String)",
		ret:    "Option GoLite.Err",
		funcs: map[string]fsCallee{
			"os.Stat":       {lean: "os.Stat", effect: true, nres: 2},
			"os.Open":       {lean: "os.Open", effect: true, nres: 2},
			"os.MkdirAll":   {lean: "os.MkdirAll", effect: true, nres: 1},
			"os.Create":     {lean: "os.Create", effect: true, nres: 2},
			"io.Copy":       {lean: "io.Copy", effect: true, nres: 2},
			"filepath.Join": {lean: "filepath.Join", nres: 1},
			"filepath.Base": {lean: "filepath.Base", nres: 1},
		},
		methods: map[string]fsCallee{
			"Mode":      {lean: "FileInfo.Mode", nres: 1},
			"IsRegular": {lean: "FileMode.IsRegular", nres: 1},
			"Close":     {lean: "File.Close", effect: true, nres: 1},
			"Chmod":     {lean: "File.Chmod", effect: true, nres: 1},
		},
		idents: map[string]string{"ErrNotRegularFile": "(some ErrNotRegularFile)"},
		convs:  map[string]string{"os.FileMode": "os.FileMode"},
	},
}

package main

import (
	"fmt"
	"go/ast"
	"go/token"
	"strings"
)

func init() { families = append(families, family{"C12", genC12}) }

// c12HasNilGuard reports whether the function contains `if <expr> == nil { ... return ... }`
// (anywhere in its body, closures included).
func c12HasNilGuard(fd *ast.FuncDecl, expr string) bool {
	found := false
	ast.Inspect(fd.Body, func(n ast.Node) bool {
		is, ok := n.(*ast.IfStmt)
		if !ok {
			return true
		}
		be, ok := is.Cond.(*ast.BinaryExpr)
		if !ok || be.Op != token.EQL {
			return true
		}
		if id, ok := be.Y.(*ast.Ident); !ok || id.Name != "nil" {
			return true
		}
		if exprText(be.X) != expr {
			return true
		}
		// the guarded block must leave the function
		for _, st := range is.Body.List {
			if _, ok := st.(*ast.ReturnStmt); ok {
				found = true
			}
		}
		return true
	})
	return found
}

// genC12: presence of the nil guards of the verification entry points.
func genC12() string {
	type g struct{ file, recv, fn, expr, name string }
	guards := []g{
		{"notation.go", "", "VerifyBlob", "blobVerifier", "nVerifyBlobVerifierNil"},
		{"notation.go", "", "VerifyBlob", "blobReader", "nVerifyBlobReaderNil"},
		{"notation.go", "", "VerifyBlob", "vo.EnvelopeContent", "nVerifyBlobContentNil"},
		{"notation.go", "", "Verify", "verifier", "nVerifyVerifierNil"},
		{"notation.go", "", "Verify", "repo", "nVerifyRepoNil"},
		{"notation.go", "", "Verify", "outcome", "nVerifyOutcomeNil"},
		{"notation.go", "VerificationOutcome", "UserMetadata", "outcome.EnvelopeContent", "userMetadataContentNil"},
		{"verifier/verifier.go", "verifier", "SkipVerify", "v.ociTrustPolicyDoc", "skipVerifyDocNil"},
		{"verifier/verifier.go", "verifier", "Verify", "v.ociTrustPolicyDoc", "vVerifyDocNil"},
		{"verifier/verifier.go", "verifier", "VerifyBlob", "v.blobTrustPolicyDoc", "vVerifyBlobDocNil"},
		{"verifier/verifier.go", "verifier", "processSignature", "v.pluginManager", "pluginManagerNil"},
	}
	var b strings.Builder
	files := map[string]*ast.File{}
	b.WriteString("/-- nil guards of the verification entry points: (name, present in the source) -/\ndef c12Guards : List (String × Bool) :=\n  [")
	for i, x := range guards {
		f, ok := files[x.file]
		if !ok {
			f = parseFile(x.file)
			files[x.file] = f
		}
		fd := mustFunc(f, x.file, x.recv, x.fn)
		if i > 0 {
			b.WriteString(",\n   ")
		}
		fmt.Fprintf(&b, "(%s, %s)", leanStr(x.name), leanBool(c12HasNilGuard(fd, x.expr)))
	}
	b.WriteString("]\n")
	return b.String()
}

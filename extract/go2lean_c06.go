package main

// C06 - ties to the translated source: verifyExpiry, verifyAuthenticTimestamp and verifyTimestamp
// (verifier/verifier.go), regenerated on every run into lean/NotationModel/Generated/SrcC06.lean;
// the two verifyTimestamp option constants of package trustpolicy into Generated/SrcC06b.lean.
// The clock and every library call are oracles (Src/TypesC06.lean); `revocationFinalResult` is the
// translation of Generated/SrcC05.lean.

func init() {
	families = append(families,
		family{"SrcC06b", func() string {
			return g2lFile("trustpolicy", g2lDecls("verifier/trustpolicy/trustpolicy.go",
				[]string{"OptionAlways", "OptionAfterCertExpiry"}), nil, "NotationModel.Src.TypesC06")
		}},
		family{"SrcC06", func() string {
			return g2lFile("verifier", "", srcC06, "NotationModel.Src.TypesC06", "NotationModel.Generated.SrcLevels",
				"NotationModel.Generated.SrcC05", "NotationModel.Generated.SrcC06b")
		}},
	)
}

var c06Calls = map[string]string{
	"time.Now":                            "env.Now",
	"isTSATrustStoreInPolicy":             "env.isTSATrustStoreInPolicy",
	"loadX509TSATrustStores":              "env.loadX509TSATrustStores",
	"tspclient.ParseSignedToken":          "env.ParseSignedToken",
	"nx509.ValidateTimestampingCertChain": "env.ValidateTimestampingCertChain",
	"verifyTimestamp":                     "verifyTimestamp env",
	"x509.NewCertPool":                    "x509.NewCertPool",
	"*.AddCert!":                          "x509.CertPool.AddCert",
}

const c06Binders = "(policyName : String) (trustStores : List String) (signatureVerification : c06.SignatureVerification) " +
	"(x509TrustStore : truststore.X509TrustStore) (r : revocation.Validator) (outcome : c06.VerificationOutcome)"

var srcC06 = []*g2lTarget{
	{
		file: "verifier/verifier.go", fn: "verifyExpiry", leanName: "verifyExpiry",
		params:    "(env : Env) (outcome : c06.VerificationOutcome)",
		ret:       "«notation».ValidationResult",
		retOpt:    []bool{false},
		callSubst: c06Calls,
		dropCalls: g2lLogging,
		optFields: []string{"Error"},
		mapFields: []string{"Enforcement"},
		zeroFill:  true,
	},
	{
		file: "verifier/verifier.go", fn: "verifyTimestamp", leanName: "verifyTimestamp",
		params:     "(env : Env) " + c06Binders,
		ret:        "Option GoLite.Err",
		retOpt:     []bool{true},
		callSubst:  c06Calls,
		dropCalls:  g2lLogging,
		dropArgs:   []string{"ctx", "logger"},
		ownedVars:  []string{"rootCertPool"},
		wrapErrors: true,
		intLen:     true,
	},
	{
		file: "verifier/verifier.go", fn: "verifyAuthenticTimestamp", leanName: "verifyAuthenticTimestamp",
		params:    "(env : Env) " + c06Binders,
		ret:       "«notation».ValidationResult",
		retOpt:    []bool{false},
		callSubst: c06Calls,
		dropCalls: g2lLogging,
		dropArgs:  []string{"ctx"},
		optFields: []string{"Error"},
		mapFields: []string{"Enforcement"},
		zeroFill:  true,
	},
}

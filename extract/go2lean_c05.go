package main

// C05: `(*verifier).verifyRevocation` (verifier/verifier.go) translated on every run into
// lean/NotationModel/Generated/SrcC05b.lean: which of the two configured revocation checkers is
// consulted, with which arguments, and how its answer becomes the revocation result
// (`revocationFinalResult` is the translation of Generated/SrcC05.lean). The checkers and
// `SignerInfo.AuthenticSigningTime()` are oracles (Src/TypesC05.lean).

func init() {
	families = append(families, family{"SrcC05b", func() string {
		return g2lFile("c05v", "", srcC05b, "NotationModel.Src.TypesC05", "NotationModel.Generated.SrcLevels", "NotationModel.Generated.SrcC05")
	}})
}

var srcC05b = []*g2lTarget{
	{
		file: "verifier/verifier.go", recv: "verifier", fn: "verifyRevocation", leanName: "verifyRevocation", recvName: "v",
		params:    "(v : c05.verifier) (outcome : c05.VerificationOutcome)",
		ret:       "«notation».ValidationResult",
		retOpt:    []bool{false},
		dropCalls: g2lLogging,
		dropArgs:  []string{"ctx", "logger"},
		optFields: []string{"Error", "revocationCodeSigningValidator", "revocationClient"},
		mapFields: []string{"Enforcement"},
		optVars:   []string{"err"},
		optElems:  []string{"certResults"},
		zeroFill:  true,
		callSubst: map[string]string{
			"revocationFinalResult": "verifier.revocationFinalResult",
		},
	},
}

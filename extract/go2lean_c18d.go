package main

// C18: `(*pluginPrimitiveSigner).Sign` (signer/plugin.go) - the one place where a signature-generator
// plugin's raw signature enters the library - translated on every run into
// lean/NotationModel/Generated/SrcC18d.lean. The plugin's `GenerateSignature` and `parseCertChain`
// (x509 parsing) are oracles carried by the signer value (Src/TypesC18d.lean); the key-spec codecs
// are the translations of Generated/SrcC18c.lean.

func init() {
	families = append(families, family{"SrcC18d", func() string {
		return g2lFile("c18d", "", srcC18d, "NotationModel.Src.TypesC18d", "NotationModel.Generated.SrcC18c")
	}})
}

var srcC18d = []*g2lTarget{
	{
		file: "signer/plugin.go", recv: "pluginPrimitiveSigner", fn: "Sign", leanName: "pluginPrimitiveSigner.Sign", recvName: "s",
		params:  "(s : pluginPrimitiveSigner) (payload : Bytes)",
		ret:     "Option Bytes × Option (List Cert) × Option GoLite.Err",
		retOpt:  []bool{true, true, true},
		optVars: []string{"err", "resp"},
		callSubst: map[string]string{
			"proto.EncodeKeySpec":            "proto.EncodeKeySpec",
			"proto.HashAlgorithmFromKeySpec": "proto.HashAlgorithmFromKeySpec",
			"s.plugin.GenerateSignature":     "s.GenerateSignature",
			"parseCertChain":                 "s.parseCertChain",
		},
		optFields: []string{"Signature"},
		ownedVars: []string{"req"},
		zeroFill:  true,
	},
}

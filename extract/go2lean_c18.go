package main

// Translated-source tie of C18 (docs/TIE_BRIEF.md): the pure decision functions of the plugin
// signer (signer/plugin.go), translated on every run into lean/NotationModel/Generated/SrcC18.lean.
// Library calls are oracles: `content.Equal` (oras-go) is the hand-written three-field comparison of
// Src/TypesC18.lean, `json.Unmarshal` into a `map[string]interface{}` is a field of `signer.World`.

func init() {
	families = append(families,
		family{"SrcC18b", func() string {
			const f = "internal/envelope/envelope.go"
			return g2lFile("envelope", g2lDecls(f, []string{"MediaTypePayloadV1"}), srcC18b, "NotationModel.Src.TypesC18")
		}},
		family{"SrcC18c", func() string {
			return g2lFile("proto", "", srcC18c, "NotationModel.Src.TypesC18")
		}},
		family{"SrcC18", func() string {
			return g2lFile("signer", "", srcC18, "NotationModel.Src.TypesC18", "NotationModel.Generated.SrcC18b")
		}})
}

var srcC18b = []*g2lTarget{
	{
		file: "internal/envelope/envelope.go", fn: "ValidatePayloadContentType", leanName: "ValidatePayloadContentType",
		params: "(payload : signature.Payload)",
		ret:    "Option GoLite.Err",
		retOpt: []bool{true},
	},
}

var srcC18c = []*g2lTarget{
	{
		file: "plugin/proto/algorithm.go", fn: "DecodeKeySpec", leanName: "DecodeKeySpec",
		params: "(k : String)",
		ret:    "signature.KeySpec × Option GoLite.Err",
		retOpt: []bool{false, true},
	},
	{
		file: "plugin/proto/algorithm.go", fn: "EncodeKeySpec", leanName: "EncodeKeySpec",
		params: "(k : signature.KeySpec)",
		ret:    "String × Option GoLite.Err",
		retOpt: []bool{false, true},
	},
	{
		file: "plugin/proto/algorithm.go", fn: "HashAlgorithmFromKeySpec", leanName: "HashAlgorithmFromKeySpec",
		params: "(k : signature.KeySpec)",
		ret:    "String × Option GoLite.Err",
		retOpt: []bool{false, true},
	},
}

var srcC18 = []*g2lTarget{
	{
		file: "signer/plugin.go", fn: "isDescriptorSubset", leanName: "isDescriptorSubset",
		params: "(original newDesc : ocispec.Descriptor)",
		ret:    "Bool",
		retOpt: []bool{false},
		subst:  map[string]string{"range:original.Annotations": "map"},
	},
	{
		file: "signer/plugin.go", fn: "isPayloadDescriptorValid", leanName: "isPayloadDescriptorValid",
		params: "(originalDesc newDesc : ocispec.Descriptor)",
		ret:    "Bool",
		retOpt: []bool{false},
	},
	{
		file: "signer/plugin.go", fn: "getKeySet", leanName: "getKeySet",
		params: "(inputMap : GoLite.Map String JAny)",
		ret:    "List String",
		retOpt: []bool{false},
		subst:  map[string]string{"range:inputMap": "map", "type:interface{}": "JAny"},
	},
	{
		file: "signer/plugin.go", fn: "areUnknownAttributesAdded", leanName: "areUnknownAttributesAdded",
		params:    "(w : World) (content : Bytes)",
		ret:       "List String",
		retOpt:    []bool{false},
		subst:     map[string]string{"type:interface{}": "JAny"},
		callSubst: map[string]string{"json.Unmarshal": "w.UnmarshalMap", "assert:(GoLite.Map String JAny)": "JAny.asObj"},
		outArgs:   map[string]int{"json.Unmarshal": 1},
		mapVars:   []string{"targetArtifactMap", "descriptor"},
		// the decoded map and the object inside it are fresh results of json.Unmarshal into a local
		ownedVars: []string{"targetArtifactMap", "descriptor"},
	},
	{
		// generateSignatureEnvelope from the plugin's answer on: everything the signer checks before it
		// hands the envelope back. The plugin call itself, envelope parsing and verification
		// (notation-core-go), the two JSON decodings and findDuplicateKey are oracles (fields of `World`).
		file: "signer/plugin.go", recv: "PluginSigner", fn: "generateSignatureEnvelope", recvName: "s", leanName: "checkGeneratedEnvelope",
		after: "s.plugin.GenerateEnvelope",
		params: "(w : World) (desc : ocispec.Descriptor) (opts : «notation».SignerSignOptions) " +
			"(req : plugin.GenerateEnvelopeRequest) (resp : plugin.GenerateEnvelopeResponse) (err : Option GoLite.Err)",
		ret:        "Bytes × Option signature.SignerInfo × Option GoLite.Err",
		retOpt:     []bool{false, true, true},
		nres:       3,
		optVars:    []string{"err"},
		dropCalls:  g2lLogging,
		dropAssign: []string{"s.manifestAnnotations"},
		subst:      map[string]string{"type:interface{}": "JAny"},
		callSubst: map[string]string{"signature.ParseEnvelope": "w.ParseEnvelope", "json.Unmarshal": "w.UnmarshalPayload",
			"findDuplicateKey": "w.findDuplicateKey", "areUnknownAttributesAdded": "areUnknownAttributesAdded w",
			"envelope.ValidatePayloadContentType": "envelope.ValidatePayloadContentType"},
		outArgs:    map[string]int{"json.Unmarshal": 1},
		wrapErrors: true,
	},
}

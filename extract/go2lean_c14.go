package main

// C14: the write protocol of the CRL cache, `file.WriteFile` (internal/file/file.go), translated on
// every run into lean/NotationModel/Generated/SrcC14.lean by the protocol translator
// (go2lean_fs.go): an effectful program in the monad `FS` of lean/NotationModel/Src/TypesC14.lean,
// in which every operating-system call is logged with its arguments and answered by an oracle.
// The `verifHook` calls (build tag verif, no-ops otherwise) are dropped.

func init() {
	families = append(families,
		family{"SrcC14", func() string { return fsFile("fsproto", srcC14, "NotationModel.Src.TypesC14") }})
}

var c14Funcs = map[string]fsCallee{
	"os.CreateTemp": {lean: "os.CreateTemp", effect: true, nres: 2},
	"os.Remove":     {lean: "os.Remove", effect: true, nres: 1},
	"os.Rename":     {lean: "os.Rename", effect: true, nres: 1},
}

var c14Methods = map[string]fsCallee{
	"Write": {lean: "File.Write", effect: true, nres: 2},
	"Close": {lean: "File.Close", effect: true, nres: 1},
	"Name":  {lean: "File.Name", effect: false, nres: 1},
}

var srcC14 = []*fsTarget{
	{
		file: "internal/file/file.go", fn: "WriteFile", leanName: "WriteFile",
		params:    "(tempDir path : String) (content : Bytes)",
		ret:       "Option GoLite.Err",
		funcs:     c14Funcs,
		methods:   c14Methods,
		dropCalls: []string{"verifHook"},
	},
}

package main

import (
	"fmt"
	"go/ast"
	"go/parser"
	"go/token"
	"os"
	"os/exec"
	"path/filepath"
	"regexp"
	"strconv"
	"strings"
)

func init() { families = append(families, family{"C16", genC16}) }

func c16ParserParse(abs string) (*ast.File, error) { return parser.ParseFile(fset, abs, nil, 0) }

// c16LeanChars renders a Go string as a Lean `List Char` literal (rune by rune).
func c16LeanChars(s string) string {
	var parts []string
	for _, r := range s {
		switch {
		case r == '\'':
			parts = append(parts, `'\''`)
		case r == '\\':
			parts = append(parts, `'\\'`)
		case r < 0x20 || r == 0x7f:
			parts = append(parts, fmt.Sprintf(`'\x%02x'`, r))
		default:
			parts = append(parts, "'"+string(r)+"'")
		}
	}
	return "[" + strings.Join(parts, ", ") + "]"
}

// paramNames lists the parameter names of a function in order.
func paramNames(fd *ast.FuncDecl) []string {
	var out []string
	for _, p := range fd.Type.Params.List {
		for _, n := range p.Names {
			out = append(out, n.Name)
		}
	}
	return out
}

// isNameGuard reports whether st is
//
//	if err := validatePluginName(<ident>); err != nil { return ..., err }
//
// and returns the identifier that is validated.
func isNameGuard(st ast.Stmt) (string, bool) {
	is, ok := st.(*ast.IfStmt)
	if !ok || is.Init == nil || is.Else != nil {
		return "", false
	}
	as, ok := is.Init.(*ast.AssignStmt)
	if !ok || as.Tok != token.DEFINE || len(as.Lhs) != 1 || len(as.Rhs) != 1 {
		return "", false
	}
	errVar, ok := as.Lhs[0].(*ast.Ident)
	if !ok {
		return "", false
	}
	call, ok := as.Rhs[0].(*ast.CallExpr)
	if !ok || callName(call) != "validatePluginName" || len(call.Args) != 1 {
		return "", false
	}
	arg, ok := call.Args[0].(*ast.Ident)
	if !ok {
		return "", false
	}
	cond, ok := is.Cond.(*ast.BinaryExpr)
	if !ok || cond.Op != token.NEQ || exprText(cond.X) != errVar.Name || exprText(cond.Y) != "nil" {
		return "", false
	}
	// the body must leave the function, handing the validation error back
	if len(is.Body.List) == 0 {
		return "", false
	}
	ret, ok := is.Body.List[len(is.Body.List)-1].(*ast.ReturnStmt)
	if !ok || len(ret.Results) == 0 || exprText(ret.Results[len(ret.Results)-1]) != errVar.Name {
		return "", false
	}
	return arg.Name, true
}

func calleeList(body *ast.BlockStmt, prefixes ...string) []string {
	var out []string
	for _, c := range callsIn(body, prefixes...) {
		out = append(out, callName(c))
	}
	return out
}

// c16FrameworkDir locates the notation-plugin-framework-go module the tree is built against.
func c16FrameworkDir() string {
	gm, err := os.ReadFile(filepath.Join(repoRoot, "go.mod"))
	if err != nil {
		fail("go.mod: %v", err)
	}
	m := regexp.MustCompile(`(?m)^\s*(?:require\s+)?github\.com/notaryproject/notation-plugin-framework-go\s+(v\S+)`).FindSubmatch(gm)
	if m == nil {
		fail("go.mod: notation-plugin-framework-go is not required")
	}
	cache := os.Getenv("GOMODCACHE")
	if cache == "" {
		out, err := exec.Command("go", "env", "GOMODCACHE").Output()
		if err != nil {
			fail("go env GOMODCACHE: %v", err)
		}
		cache = strings.TrimSpace(string(out))
	}
	d := filepath.Join(cache, "github.com/notaryproject/notation-plugin-framework-go@"+string(m[1]))
	if _, err := os.Stat(d); err != nil {
		fail("plugin framework module not in the module cache: %v", err)
	}
	return d
}

// genC16: the guards of CLIManager.Get / Uninstall / Install, the rule of validatePluginName,
// how the executable name and the system path are formed, the binary prefix, and where the
// verifier takes the plugin name from.
func genC16() string {
	var b strings.Builder
	const mfile = "plugin/manager.go"
	mf := parseFile(mfile)

	// ---- validatePluginName: if a == "x" || ... || strings.ContainsAny(a, "chars") { return error }; return nil
	vp := mustFunc(mf, mfile, "", "validatePluginName")
	vparams := paramNames(vp)
	if len(vparams) != 1 || len(vp.Body.List) != 2 {
		fail("%s: validatePluginName no longer has the shape `if <rule> { return error }; return nil`", mfile)
	}
	vif, ok := vp.Body.List[0].(*ast.IfStmt)
	if !ok || vif.Init != nil || vif.Else != nil || len(vif.Body.List) != 1 {
		fail("%s: validatePluginName: first statement is not a plain if", mfile)
	}
	if r, ok := vif.Body.List[0].(*ast.ReturnStmt); !ok || len(r.Results) != 1 || exprText(r.Results[0]) == "nil" {
		fail("%s: validatePluginName: the rule does not return an error", mfile)
	}
	if r, ok := vp.Body.List[1].(*ast.ReturnStmt); !ok || len(r.Results) != 1 || exprText(r.Results[0]) != "nil" {
		fail("%s: validatePluginName: does not end with return nil", mfile)
	}
	var specials []string
	var chars string
	haveChars := false
	var flatten func(e ast.Expr)
	flatten = func(e ast.Expr) {
		switch x := e.(type) {
		case *ast.ParenExpr:
			flatten(x.X)
		case *ast.BinaryExpr:
			switch x.Op {
			case token.LOR:
				flatten(x.X)
				flatten(x.Y)
			case token.EQL:
				id, ok1 := x.X.(*ast.Ident)
				lit, ok2 := x.Y.(*ast.BasicLit)
				if !ok1 || !ok2 { // "lit" == name
					id, ok1 = x.Y.(*ast.Ident)
					lit, ok2 = x.X.(*ast.BasicLit)
				}
				if !ok1 || !ok2 || id.Name != vparams[0] || lit.Kind != token.STRING {
					fail("%s: validatePluginName: unrecognised comparison %s", mfile, exprText(x))
				}
				s, err := strconv.Unquote(lit.Value)
				if err != nil {
					fail("%s: validatePluginName: %v", mfile, err)
				}
				specials = append(specials, s)
			default:
				fail("%s: validatePluginName: unrecognised operator %s in the rule", mfile, x.Op)
			}
		case *ast.CallExpr:
			if callName(x) != "strings.ContainsAny" || len(x.Args) != 2 || exprText(x.Args[0]) != vparams[0] || haveChars {
				fail("%s: validatePluginName: unrecognised call %s", mfile, exprText(x))
			}
			lit, ok := x.Args[1].(*ast.BasicLit)
			if !ok || lit.Kind != token.STRING {
				fail("%s: validatePluginName: ContainsAny without a literal", mfile)
			}
			s, err := strconv.Unquote(lit.Value)
			if err != nil {
				fail("%s: validatePluginName: %v", mfile, err)
			}
			chars, haveChars = s, true
		default:
			fail("%s: validatePluginName: unrecognised disjunct %s", mfile, exprText(e))
		}
	}
	flatten(vif.Cond)
	var sp []string
	for _, s := range specials {
		sp = append(sp, c16LeanChars(s))
	}
	fmt.Fprintf(&b, "/-- `validatePluginName` rejects a name equal to one of these ... -/\ndef c16SpecialNames : List (List Char) := [%s]\n\n", strings.Join(sp, ", "))
	fmt.Fprintf(&b, "/-- ... or containing one of these characters (`strings.ContainsAny`) -/\ndef c16ForbiddenChars : List Char := %s\n\n", c16LeanChars(chars))

	// ---- Get
	get := mustFunc(mf, mfile, "CLIManager", "Get")
	gp := paramNames(get)
	if len(gp) != 2 {
		fail("%s: CLIManager.Get: unexpected parameters", mfile)
	}
	g, isG := isNameGuard(get.Body.List[0])
	getFirst := isG && g == gp[1]
	// the validated name is what is joined into the path
	getFlow := false
	for _, c := range callsIn(get.Body, "path.Join") {
		if len(c.Args) == 2 && exprText(c.Args[0]) == gp[1] && exprText(c.Args[1]) == "binName("+gp[1]+")" {
			getFlow = true
		}
	}
	fmt.Fprintf(&b, "/-- `CLIManager.Get` starts with `if err := validatePluginName(name); err != nil { return nil, err }` on its name parameter -/\ndef c16GetValidatesFirst : Bool := %s\n\n", leanBool(getFirst))
	fmt.Fprintf(&b, "/-- `CLIManager.Get` builds the relative path as `path.Join(name, binName(name))` -/\ndef c16GetJoinsNameAndBinName : Bool := %s\n\n", leanBool(getFlow))
	fmt.Fprintf(&b, "/-- callees of `CLIManager.Get`, in source order -/\ndef c16GetCallees : List String := %s\n\n",
		leanStrList(calleeList(get.Body, "validatePluginName", "path.", "filepath.", "binName", "m.pluginFS.", "NewCLIPlugin", "os.")))

	// ---- Uninstall
	un := mustFunc(mf, mfile, "CLIManager", "Uninstall")
	up := paramNames(un)
	if len(up) != 2 {
		fail("%s: CLIManager.Uninstall: unexpected parameters", mfile)
	}
	g, isG = isNameGuard(un.Body.List[0])
	unFirst := isG && g == up[1]
	unFlow := false
	for _, c := range callsIn(un.Body, "m.pluginFS.SysPath") {
		if len(c.Args) == 1 && exprText(c.Args[0]) == up[1] {
			unFlow = true
		}
	}
	fmt.Fprintf(&b, "/-- `CLIManager.Uninstall` starts with the same guard on its name parameter -/\ndef c16UninstallValidatesFirst : Bool := %s\n\n", leanBool(unFirst))
	fmt.Fprintf(&b, "/-- `CLIManager.Uninstall` removes `m.pluginFS.SysPath(name)` -/\ndef c16UninstallUsesSysPathOfName : Bool := %s\n\n", leanBool(unFlow))
	fmt.Fprintf(&b, "/-- callees of `CLIManager.Uninstall`, in source order -/\ndef c16UninstallCallees : List String := %s\n\n",
		leanStrList(calleeList(un.Body, "validatePluginName", "path.", "filepath.", "m.pluginFS.", "os.")))

	// ---- Install: the guard is a top-level statement that precedes every use of the name
	in := mustFunc(mf, mfile, "CLIManager", "Install")
	guardPos := token.NoPos
	guardArg := ""
	for _, st := range in.Body.List {
		if a, ok := isNameGuard(st); ok {
			guardPos, guardArg = st.Pos(), a
			break
		}
	}
	uses := callsIn(in.Body, "NewCLIPlugin", "m.Get", "m.Uninstall", "m.pluginFS.", "file.CopyToDir", "file.CopyDirToDir", "os.")
	instOK := guardPos != token.NoPos && len(uses) > 0
	for _, c := range uses {
		if c.Pos() < guardPos {
			instOK = false
		}
		// the same variable is what the later calls use as the plugin name
		switch callName(c) {
		case "NewCLIPlugin", "m.Get", "m.Uninstall":
			if len(c.Args) < 2 || exprText(c.Args[1]) != guardArg {
				instOK = false
			}
		case "m.pluginFS.SysPath":
			if len(c.Args) != 1 || exprText(c.Args[0]) != guardArg {
				instOK = false
			}
		}
	}
	fmt.Fprintf(&b, "/-- `CLIManager.Install` validates the derived plugin name in a top-level guard before `NewCLIPlugin`,\n`m.Get`, `m.Uninstall`, `SysPath` and the copy, and these calls use that same variable -/\ndef c16InstallValidatesBeforeUse : Bool := %s\n\n", leanBool(instOK))
	fmt.Fprintf(&b, "/-- callees of `CLIManager.Install` that touch the file system or run a process, in source order -/\ndef c16InstallCallees : List String := %s\n\n",
		leanStrList(calleeList(in.Body, "parsePluginFromDir", "parsePluginName", "isExecutableFile", "validatePluginName", "NewCLIPlugin", "m.Get", "m.Uninstall", "m.pluginFS.", "file.CopyToDir", "file.CopyDirToDir")))

	// ---- the executable bit of a lone non-executable candidate is set by Install after the guard,
	// never by parsePluginFromDir (which runs before the name is known to be acceptable)
	ppd := mustFunc(mf, mfile, "", "parsePluginFromDir")
	chmodLate := guardPos != token.NoPos && len(callsIn(ppd.Body, "setExecutable", "os.Chmod")) == 0
	for _, c := range callsIn(in.Body, "setExecutable", "os.Chmod") {
		if c.Pos() < guardPos {
			chmodLate = false
		}
	}
	fmt.Fprintf(&b, "/-- no `setExecutable` / `os.Chmod` in `parsePluginFromDir`, and in `Install` only after the name guard -/\ndef c16SetExecutableAfterValidation : Bool := %s\n\n", leanBool(chmodLate))

	// ---- binName / parsePluginName (unix) and the prefix
	const ufile = "plugin/manager_unix.go"
	uf := parseFile(ufile)
	bn := mustFunc(uf, ufile, "", "binName")
	bnp := paramNames(bn)
	bnOK := false
	if len(bn.Body.List) == 1 && len(bnp) == 1 {
		if r, ok := bn.Body.List[0].(*ast.ReturnStmt); ok && len(r.Results) == 1 && exprText(r.Results[0]) == "plugin.BinaryPrefix+"+bnp[0] {
			bnOK = true
		}
	}
	fmt.Fprintf(&b, "/-- `binName(name)` is `plugin.BinaryPrefix + name` -/\ndef c16BinNameIsPrefixPlusName : Bool := %s\n\n", leanBool(bnOK))
	pn := mustFunc(uf, ufile, "", "parsePluginName")
	pnOK := false
	for _, c := range callsIn(pn.Body, "strings.CutPrefix") {
		if len(c.Args) == 2 && exprText(c.Args[0]) == paramNames(pn)[0] && exprText(c.Args[1]) == "plugin.BinaryPrefix" {
			pnOK = true
		}
	}
	fmt.Fprintf(&b, "/-- `parsePluginName(fileName)` cuts `plugin.BinaryPrefix` off the file name -/\ndef c16ParseCutsPrefix : Bool := %s\n\n", leanBool(pnOK))
	fw := c16FrameworkDir()
	pf, err := c16ParserParse(filepath.Join(fw, "plugin", "proto.go"))
	if err != nil {
		fail("plugin framework proto.go: %v", err)
	}
	prefix, ok := consts(pf)["BinaryPrefix"]
	if !ok {
		fail("plugin framework: BinaryPrefix not found")
	}
	fmt.Fprintf(&b, "/-- `plugin.BinaryPrefix` of notation-plugin-framework-go (the version in go.mod) -/\ndef c16BinaryPrefix : List Char := %s\n\n", c16LeanChars(prefix))

	// ---- dir.sysFS.SysPath
	const dfile = "dir/fs.go"
	df := parseFile(dfile)
	spf := mustFunc(df, dfile, "sysFS", "SysPath")
	spOK := false
	if n := len(spf.Body.List); n == 3 {
		a0, ok0 := spf.Body.List[0].(*ast.AssignStmt)
		a1, ok1 := spf.Body.List[1].(*ast.AssignStmt)
		r, ok2 := spf.Body.List[2].(*ast.ReturnStmt)
		if ok0 && ok1 && ok2 && len(a0.Rhs) == 1 && len(a1.Rhs) == 1 && len(r.Results) == 2 {
			cl, okc := a0.Rhs[0].(*ast.CompositeLit)
			ap, oka := a1.Rhs[0].(*ast.CallExpr)
			jc, okj := r.Results[0].(*ast.CallExpr)
			if okc && oka && okj && len(cl.Elts) == 1 && exprText(cl.Elts[0]) == "s.root" &&
				callName(ap) == "append" && ap.Ellipsis != token.NoPos && len(ap.Args) == 2 &&
				exprText(ap.Args[0]) == exprText(a0.Lhs[0]) && exprText(ap.Args[1]) == paramNames(spf)[0] &&
				callName(jc) == "filepath.Join" && jc.Ellipsis != token.NoPos && len(jc.Args) == 1 &&
				exprText(jc.Args[0]) == exprText(a0.Lhs[0]) && exprText(r.Results[1]) == "nil" {
				spOK = true
			}
		}
	}
	fmt.Fprintf(&b, "/-- `sysFS.SysPath(items...)` is `filepath.Join(append([]string{s.root}, items...)...)`, never an error -/\ndef c16SysPathIsJoinUnderRoot : Bool := %s\n\n", leanBool(spOK))

	// ---- verifier: the name handed to pluginManager.Get is the signature's extended attribute
	const vfile = "verifier/verifier.go"
	vf := parseFile(vfile)
	ps := mustFunc(vf, vfile, "verifier", "processSignature")
	nameVar := ""
	ast.Inspect(ps.Body, func(n ast.Node) bool {
		as, ok := n.(*ast.AssignStmt)
		if ok && len(as.Rhs) == 1 && len(as.Lhs) == 2 {
			if c, ok := as.Rhs[0].(*ast.CallExpr); ok && callName(c) == "getVerificationPlugin" {
				nameVar = exprText(as.Lhs[0])
			}
		}
		return true
	})
	vOK := false
	for _, c := range callsIn(ps.Body, "v.pluginManager.Get") {
		if nameVar != "" && len(c.Args) == 2 && exprText(c.Args[1]) == nameVar {
			vOK = true
		}
	}
	fmt.Fprintf(&b, "/-- `verifier.processSignature` passes the result of `getVerificationPlugin` (the signature's\nextended attribute) to `pluginManager.Get` -/\ndef c16VerifierPassesAttributeToGet : Bool := %s\n\n", leanBool(vOK))
	const hfile = "verifier/helpers.go"
	hv, ok := consts(parseFile(hfile))["HeaderVerificationPlugin"]
	if !ok {
		fail("%s: HeaderVerificationPlugin not found", hfile)
	}
	fmt.Fprintf(&b, "def c16HeaderVerificationPlugin : String := %s\n", leanStr(hv))
	return b.String()
}

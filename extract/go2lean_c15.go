package main

// C15: the decision code of the CRL file cache (verifier/crl/crl.go), translated on every run
// into lean/NotationModel/Generated/SrcC15.lean. File system, JSON, X.509, SHA-256 and the
// clock are oracles (fields of `crl.Env`, lean/NotationModel/Src/TypesC15.lean).

func init() {
	families = append(families,
		family{"SrcC15", func() string { return g2lFile("crl", "", srcC15, "NotationModel.Src.TypesC15") }})
}

var c15Oracles = map[string]string{
	"os.ReadFile":              "env.ReadFile",
	"json.Unmarshal":           "env.Unmarshal",
	"json.Marshal":             "env.Marshal",
	"x509.ParseRevocationList": "env.ParseRevocationList",
	"file.WriteFile":           "env.WriteFile",
	"sha256.Sum256":            "env.sum256",
	"time.Now":                 "env.Now",
	"[]byte":                   "id", // a Go string is its bytes
	"checkExpiry":              "checkExpiry env",
	"c.fileName":               "FileCache.fileName env c",
}

var c15Fields = []string{"BaseCRL", "DeltaCRL"}

var srcC15 = []*g2lTarget{
	{
		file: "verifier/crl/crl.go", recv: "FileCache", fn: "fileName", leanName: "FileCache.fileName", recvName: "c",
		params:    "(env : Env) (c : FileCache) (url : String)",
		ret:       "String",
		retOpt:    []bool{false},
		callSubst: c15Oracles,
	},
	{
		file: "verifier/crl/crl.go", fn: "checkExpiry", leanName: "checkExpiry",
		params:     "(env : Env) (ctx : context.Context) (nextUpdate : time.Time)",
		ret:        "Option GoLite.Err",
		retOpt:     []bool{true},
		callSubst:  c15Oracles,
		dropCalls:  g2lLogging,
		wrapErrors: true,
	},
	{
		file: "verifier/crl/crl.go", recv: "FileCache", fn: "Get", leanName: "FileCache.Get", recvName: "c",
		params:     "(env : Env) (c : FileCache) (ctx : context.Context) (url : String)",
		ret:        "Option corecrl.Bundle × Option GoLite.Err",
		retOpt:     []bool{true, true},
		callSubst:  c15Oracles,
		dropCalls:  g2lLogging,
		optFields:  c15Fields,
		outArgs:    map[string]int{"json.Unmarshal": 1},
		wrapErrors: true,
	},
	{
		file: "verifier/crl/crl.go", recv: "FileCache", fn: "Set", leanName: "FileCache.Set", recvName: "c",
		params:     "(env : Env) (c : FileCache) (ctx : context.Context) (url : String) (bundle : Option corecrl.Bundle)",
		ret:        "Option GoLite.Err",
		retOpt:     []bool{true},
		optVars:    []string{"bundle"},
		callSubst:  c15Oracles,
		dropCalls:  g2lLogging,
		optFields:  c15Fields,
		wrapErrors: true,
	},
}

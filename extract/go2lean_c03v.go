package main

// C03: `verifyAuthenticity` (verifier/verifier.go) translated on every run into
// lean/NotationModel/Generated/SrcC03v.lean. notation-core-go's `signature.VerifyAuthenticity` is an
// oracle carried by the signer info (Src/TypesC03v.lean).

func init() {
	families = append(families, family{"SrcC03v", func() string {
		return g2lFile("c03v", "", srcC03v, "NotationModel.Src.TypesC03v", "NotationModel.Generated.SrcLevels")
	}})
}

var srcC03v = []*g2lTarget{
	{
		file: "verifier/verifier.go", fn: "verifyAuthenticity", leanName: "verifyAuthenticity",
		params:    "(trustCerts : List x509.Certificate) (outcome : c03v.VerificationOutcome)",
		ret:       "«notation».ValidationResult",
		retOpt:    []bool{false},
		optFields: []string{"Error"},
		mapFields: []string{"Enforcement"},
		optVars:   []string{"err"},
		zeroFill:  true,
		intLen:    true,
		callSubst: map[string]string{
			"signature.VerifyAuthenticity":                 "c03v.VerifyAuthenticity",
			"typeIs:*signature.SignatureAuthenticityError": "c03v.isAuthenticityError",
		},
	},
}

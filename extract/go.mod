module xverif/extract

go 1.23.0

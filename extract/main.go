// Command extract is the fact extractor of DESIGN.md 2.3: it parses the current
// notation-go tree with go/ast and rewrites lean/NotationModel/Generated/*.lean.
// It emits data only; the hand-written model is defined in terms of that data and the
// theorems are stated about it. A missing declaration is a hard error (never a default).
package main

import (
	"flag"
	"fmt"
	"os"
	"path/filepath"
	"strings"
)

func main() {
	repo := flag.String("repo", "/repo", "")
	out := flag.String("out", "", "")
	flag.Parse()
	repoRoot = *repo
	if *out == "" {
		fail("missing -out")
	}
	if err := os.MkdirAll(*out, 0o755); err != nil {
		fail("%v", err)
	}
	for _, fam := range families {
		// a family whose declarations are no longer found fails alone: its file is left as it
		// was and `check` reports the broken tie for the properties that import it
		content, msg := genFamily(fam)
		if msg != "" {
			fmt.Printf("fact-fail %s %s\n", fam.name, strings.ReplaceAll(msg, "\n", " "))
			continue
		}
		if strings.HasPrefix(fam.name, "Src") { // a complete Lean file (translated source, see go2lean.go)
			writeIfChanged(filepath.Join(*out, fam.name+".lean"), content)
			continue
		}
		writeIfChanged(filepath.Join(*out, fam.name+".lean"), header+content+footer)
	}
}

func genFamily(fam family) (content string, msg string) {
	defer func() {
		if r := recover(); r != nil {
			if f, ok := r.(failure); ok {
				msg = string(f)
				return
			}
			msg = fmt.Sprintf("extractor panic: %v", r)
		}
	}()
	inFamily = true
	defer func() { inFamily = false }()
	return fam.gen(), ""
}

type family struct {
	name string
	gen  func() string
}

var families = []family{
	{"Levels", genLevels},
	{"Skeletons", genSkeletons},
}

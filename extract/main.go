// Command extract is the fact extractor of DESIGN.md 2.3: it parses the current
// notation-go tree with go/ast and rewrites lean/NotationModel/Generated/*.lean.
// It emits data only; the hand-written model is defined in terms of that data and the
// theorems are stated about it. A missing declaration is a hard error (never a default).
package main

import (
	"flag"
	"os"
	"path/filepath"
)

func main() {
	repo := flag.String("repo", "/repo", "")
	out := flag.String("out", "", "")
	flag.Parse()
	repoRoot = *repo
	if *out == "" {
		fail("missing -out")
	}
	if err := os.MkdirAll(*out, 0o755); err != nil {
		fail("%v", err)
	}
	for _, fam := range families {
		writeIfChanged(filepath.Join(*out, fam.name+".lean"), header+fam.gen()+footer)
	}
}

type family struct {
	name string
	gen  func() string
}

var families = []family{
	{"Levels", genLevels},
	{"Skeletons", genSkeletons},
}

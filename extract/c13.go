package main

import (
	"fmt"
	"go/ast"
	"go/parser"
	"go/token"
	"os"
	"path/filepath"
	"sort"
	"strconv"
	"strings"
)

func init() { families = append(families, family{"C13", genC13}) }

// genC13: facts of property C13 (trust store loading):
//   - truststore.Types and the three type constants,
//   - the store type(s) guarding the isRootCACertificate loop in GetCertificates,
//   - which validation calls GetCertificates makes before its first os.* call,
//   - the regular expression of file.IsValidFileName and the names it rejects up front,
//   - the fixed prefix of dir.X509TrustStoreDir,
//   - every use GetCertificates makes of its context parameter,
//   - package-level variables the functions of the load path write to or hand on (shared state).
// isParam: is name a parameter of fd?
func isParam(fd *ast.FuncDecl, name string) bool {
	for _, p := range fd.Type.Params.List {
		for _, n := range p.Names {
			if n.Name == name {
				return true
			}
		}
	}
	return false
}

// c13SharedUses: non-read uses of package-level variables (of the whole package directory) in the given functions.
func c13SharedUses(rel string, f *ast.File, fds []*ast.FuncDecl) []string {
	vars := map[string]bool{}
	pkgs, err := parser.ParseDir(token.NewFileSet(), filepath.Dir(filepath.Join(repoRoot, rel)), func(fi os.FileInfo) bool {
		return !strings.HasSuffix(fi.Name(), "_test.go")
	}, 0)
	if err != nil {
		fail("%s: cannot parse the package: %v", rel, err)
	}
	for _, p := range pkgs {
		for _, pf := range p.Files {
			for _, d := range pf.Decls {
				if gd, ok := d.(*ast.GenDecl); ok && gd.Tok == token.VAR {
					for _, sp := range gd.Specs {
						for _, n := range sp.(*ast.ValueSpec).Names {
							vars[n.Name] = true
						}
					}
				}
			}
		}
	}
	var out []string
	isVar := func(e ast.Expr) (string, bool) {
		id, ok := e.(*ast.Ident)
		return exprText(e), ok && vars[id.Name]
	}
	for _, fd := range fds {
		add := func(v, use string) { out = append(out, fd.Name.Name+":"+v+":"+use) }
		ast.Inspect(fd.Body, func(n ast.Node) bool {
			switch x := n.(type) {
			case *ast.AssignStmt:
				for _, l := range x.Lhs {
					if v, ok := isVar(l); ok {
						add(v, "assign")
					}
					if ie, ok := l.(*ast.IndexExpr); ok {
						if v, ok := isVar(ie.X); ok {
							add(v, "element-assign")
						}
					}
				}
			case *ast.IncDecStmt:
				if v, ok := isVar(x.X); ok {
					add(v, "assign")
				}
			case *ast.UnaryExpr:
				if v, ok := isVar(x.X); ok && x.Op == token.AND {
					add(v, "address")
				}
			case *ast.CallExpr:
				nm := callName(x)
				if se, ok := x.Fun.(*ast.SelectorExpr); ok {
					if v, ok := isVar(se.X); ok && se.Sel.Name != "MatchString" {
						add(v, "method:"+se.Sel.Name)
					}
				}
				for _, a := range x.Args {
					if v, ok := isVar(a); ok && nm != "slices.Contains" && nm != "len" {
						add(v, "arg:"+nm)
					}
				}
			}
			return true
		})
	}
	return out
}

func genC13() string {
	var b strings.Builder
	const tsFile = "verifier/truststore/truststore.go"
	tf := parseFile(tsFile)
	cs := consts(tf)
	constVal := func(id string) string {
		v, ok := cs[id]
		if !ok {
			fail("%s: constant %s not found", tsFile, id)
		}
		return v
	}
	e := findVar(tf, "Types")
	cl, ok := e.(*ast.CompositeLit)
	if !ok {
		fail("%s: Types is not a composite literal", tsFile)
	}
	var types []string
	for _, el := range cl.Elts {
		id, ok := el.(*ast.Ident)
		if !ok {
			fail("%s: Types has a non-identifier element", tsFile)
		}
		types = append(types, constVal(id.Name))
	}
	sort.Strings(types) // a set: only membership is tested
	fmt.Fprintf(&b, "/-- `truststore.Types` of %s (values of the constants listed, sorted) -/\ndef c13StoreTypes : List String := %s\n\n", tsFile, leanStrList(types))
	for _, c := range []string{"TypeCA", "TypeSigningAuthority", "TypeTSA"} {
		fmt.Fprintf(&b, "def c13%s : String := %s\n", c, leanStr(constVal(c)))
	}
	b.WriteString("\n")

	gc := mustFunc(tf, tsFile, "x509TrustStore", "GetCertificates")
	// the guard around the isRootCACertificate loop: `if storeType == <Const> { ... isRootCACertificate ... }`
	var rootTypes []string
	ast.Inspect(gc.Body, func(n ast.Node) bool {
		is, ok := n.(*ast.IfStmt)
		if !ok {
			return true
		}
		be, ok := is.Cond.(*ast.BinaryExpr)
		if !ok || be.Op != token.EQL {
			return true
		}
		// `storeType == TypeX` or `TypeX == storeType`: the operand that is not a parameter of the function
		other := be.Y
		if isParam(gc, exprText(be.Y)) {
			other = be.X
		} else if !isParam(gc, exprText(be.X)) {
			return true
		}
		if len(callsIn(is.Body, "isRootCACertificate")) == 0 {
			return true
		}
		id, ok := other.(*ast.Ident)
		if !ok {
			fail("%s: the store type guarding isRootCACertificate is not a constant", tsFile)
		}
		rootTypes = append(rootTypes, constVal(id.Name))
		return true
	})
	if len(callsIn(gc.Body, "isRootCACertificate")) == 0 {
		fail("%s: GetCertificates no longer calls isRootCACertificate", tsFile)
	}
	sort.Strings(rootTypes)
	fmt.Fprintf(&b, "/-- store types for which `GetCertificates` demands `isRootCACertificate` of every certificate -/\ndef c13RootCheckedTypes : List String := %s\n\n", leanStrList(rootTypes))

	// uses of the context parameter: method calls on it ("ctx.Err") and calls it is handed to ("arg:log.GetLogger")
	ctxName := ""
	for _, prm := range gc.Type.Params.List {
		if exprText(prm.Type) == "context.Context" && len(prm.Names) == 1 {
			ctxName = prm.Names[0].Name
		}
	}
	var ctxUses []string
	if ctxName != "" && ctxName != "_" {
		accounted := map[*ast.Ident]bool{}
		ast.Inspect(gc.Body, func(n ast.Node) bool {
			c, ok := n.(*ast.CallExpr)
			if !ok {
				return true
			}
			if se, ok := c.Fun.(*ast.SelectorExpr); ok {
				if id, ok := se.X.(*ast.Ident); ok && id.Name == ctxName {
					ctxUses = append(ctxUses, "ctx."+se.Sel.Name)
					accounted[id] = true
				}
			}
			for _, a := range c.Args {
				if id, ok := a.(*ast.Ident); ok && id.Name == ctxName {
					ctxUses = append(ctxUses, "arg:"+callName(c))
					accounted[id] = true
				}
			}
			return true
		})
		ast.Inspect(gc.Body, func(n ast.Node) bool {
			if id, ok := n.(*ast.Ident); ok && id.Name == ctxName && !accounted[id] {
				ctxUses = append(ctxUses, "other")
			}
			return true
		})
	}
	fmt.Fprintf(&b, "/-- every use `GetCertificates` makes of its context parameter -/\ndef c13ContextUses : List String := %s\n\n", leanStrList(ctxUses))

	// state shared between calls: package-level variables the functions on the load path write to
	// (assign, element-assign, append to, take the address of, call a method on, hand to a callee).
	// Reads, `slices.Contains(v, ..)` and `v.MatchString(..)` / `v.MatchString` on a compiled regular
	// expression are harmless and left out.
	var shared []string
	shared = append(shared, c13SharedUses(tsFile, tf, []*ast.FuncDecl{gc, mustFunc(tf, tsFile, "", "ValidateCertificates"),
		mustFunc(tf, tsFile, "", "isRootCACertificate"), mustFunc(tf, tsFile, "", "isValidStoreType")})...)
	{
		ff := parseFile("internal/file/file.go")
		shared = append(shared, c13SharedUses("internal/file/file.go", ff, []*ast.FuncDecl{mustFunc(ff, "internal/file/file.go", "", "IsValidFileName")})...)
		pf := parseFile("dir/path.go")
		shared = append(shared, c13SharedUses("dir/path.go", pf, []*ast.FuncDecl{mustFunc(pf, "dir/path.go", "", "X509TrustStoreDir")})...)
		sf := parseFile("dir/fs.go")
		shared = append(shared, c13SharedUses("dir/fs.go", sf, []*ast.FuncDecl{mustFunc(sf, "dir/fs.go", "sysFS", "SysPath")})...)
	}
	fmt.Fprintf(&b, "/-- package-level variables the functions of the load path write to or hand on (function:variable:use) -/\ndef c13SharedState : List String := %s\n\n", leanStrList(shared))

	// validation calls made before the first os.* call
	var before []string
	for _, c := range callsIn(gc.Body, "isValidStoreType", "file.IsValidFileName", "os.") {
		nm := callName(c)
		if strings.HasPrefix(nm, "os.") {
			if nm == "os.IsNotExist" {
				continue
			}
			break
		}
		before = append(before, nm)
	}
	fmt.Fprintf(&b, "/-- argument checks `GetCertificates` makes before its first file-system call -/\ndef c13ChecksBeforeFileSystem : List String := %s\n\n", leanStrList(before))
	// file.IsValidFileName
	const ffile = "internal/file/file.go"
	ff := parseFile(ffile)
	fn := mustFunc(ff, ffile, "", "IsValidFileName")
	if len(fn.Type.Params.List) != 1 || len(fn.Type.Params.List[0].Names) != 1 {
		fail("%s: IsValidFileName does not have exactly one parameter", ffile)
	}
	param := fn.Type.Params.List[0].Names[0].Name
	var regex []string
	ast.Inspect(fn.Body, func(n ast.Node) bool {
		if c, ok := n.(*ast.CallExpr); ok && callName(c) == "regexp.MustCompile" && len(c.Args) == 1 {
			bl, ok := c.Args[0].(*ast.BasicLit)
			if !ok || bl.Kind != token.STRING {
				fail("%s: IsValidFileName compiles a non-literal regular expression", ffile)
			}
			v, err := strconv.Unquote(bl.Value)
			if err != nil {
				fail("%s: %v", ffile, err)
			}
			regex = append(regex, v)
		}
		return true
	})
	if len(regex) != 1 {
		fail("%s: IsValidFileName: expected exactly one regexp.MustCompile, found %d", ffile, len(regex))
	}
	fmt.Fprintf(&b, "/-- the regular expression of `file.IsValidFileName` (%s) -/\ndef c13FileNameRegex : String := %s\n\n", ffile, leanStr(regex[0]))
	// `if fileName == "." || fileName == ".." { return false }`
	var rejected []string
	var collect func(e ast.Expr) bool
	collect = func(e ast.Expr) bool {
		switch x := e.(type) {
		case *ast.ParenExpr:
			return collect(x.X)
		case *ast.BinaryExpr:
			if x.Op == token.LOR {
				return collect(x.X) && collect(x.Y)
			}
			if x.Op == token.EQL {
				id, ok1 := x.X.(*ast.Ident)
				bl, ok2 := x.Y.(*ast.BasicLit)
				if !ok1 || !ok2 {
					// "lit" == fileName
					id, ok1 = x.Y.(*ast.Ident)
					bl, ok2 = x.X.(*ast.BasicLit)
				}
				if ok1 && ok2 && id.Name == param && bl.Kind == token.STRING {
					v, _ := strconv.Unquote(bl.Value)
					rejected = append(rejected, v)
					return true
				}
			}
		}
		return false
	}
	for _, st := range fn.Body.List {
		is, ok := st.(*ast.IfStmt)
		if !ok || is.Init != nil || is.Else != nil || len(is.Body.List) == 0 {
			continue
		}
		rs, ok := is.Body.List[len(is.Body.List)-1].(*ast.ReturnStmt)
		if !ok || len(rs.Results) != 1 || exprText(rs.Results[0]) != "false" {
			continue
		}
		save := rejected
		if !collect(is.Cond) {
			rejected = save
		}
	}
	sort.Strings(rejected) // a set: the order of the comparisons in the source does not matter
	fmt.Fprintf(&b, "/-- names `file.IsValidFileName` rejects before consulting the regular expression (sorted) -/\ndef c13RejectedNames : List String := %s\n\n", leanStrList(rejected))

	// dir.X509TrustStoreDir: pathItems := []string{TrustStoreDir, "x509"}
	const pfile = "dir/path.go"
	pf := parseFile(pfile)
	pcs := consts(pf)
	xd := mustFunc(pf, pfile, "", "X509TrustStoreDir")
	var prefix []string
	joined := false
	ast.Inspect(xd.Body, func(n ast.Node) bool {
		switch x := n.(type) {
		case *ast.CompositeLit:
			if len(prefix) == 0 {
				for _, el := range x.Elts {
					switch v := el.(type) {
					case *ast.BasicLit:
						s, _ := strconv.Unquote(v.Value)
						prefix = append(prefix, s)
					case *ast.Ident:
						s, ok := pcs[v.Name]
						if !ok {
							fail("%s: constant %s not found", pfile, v.Name)
						}
						prefix = append(prefix, s)
					default:
						fail("%s: X509TrustStoreDir: unexpected path item", pfile)
					}
				}
			}
		case *ast.CallExpr:
			if callName(x) == "path.Join" {
				joined = true
			}
		}
		return true
	})
	if !joined {
		fail("%s: X509TrustStoreDir no longer uses path.Join", pfile)
	}
	fmt.Fprintf(&b, "/-- fixed leading items of `dir.X509TrustStoreDir` (joined with the caller's items by `path.Join`) -/\ndef c13StoreDirPrefix : List String := %s\n", leanStrList(prefix))
	return b.String()
}

package main

// C20: the version comparison of plugin installation (internal/semver/semver.go), translated on
// every run into lean/NotationModel/Generated/SrcC20.lean. The regular expression engine
// (`semVerRegEx.MatchString`) and golang.org/x/mod/semver.Compare are oracles (fields of
// `semver.Env`, lean/NotationModel/Src/TypesC20.lean).

func init() {
	families = append(families,
		family{"SrcC20", func() string { return g2lFile("semver", "", srcC20, "NotationModel.Src.TypesC20") }},
		family{"SrcC20b", func() string { return g2lFile("plugin", "", srcC20b, "NotationModel.Src.TypesC20") }})
}

// the tail of CLIManager.Install: everything after the metadata of the new plugin was read -
// existence of the plugin, the version decision, clean-up, copy. The plugin root (m.Get,
// existingPlugin.GetMetadata, m.Uninstall, file.CopyToDir / CopyDirToDir) is an oracle `env`.
var srcC20b = []*g2lTarget{
	{
		file: "plugin/manager.go", recv: "CLIManager", fn: "Install", recvName: "m", leanName: "installTail", after: "newPlugin.GetMetadata",
		params: "(env : Env) (overwrite : Bool) (pluginName : String) (newPluginMetadata : Option plugin.GetMetadataResponse) " +
			"(installFromNonDir : Bool) (pluginExecutableFile pluginDirPath : String) (installOpts : CLIInstallOptions) (err : Option GoLite.Err)",
		ret:        "Option plugin.GetMetadataResponse × Option plugin.GetMetadataResponse × Option GoLite.Err",
		retOpt:     []bool{true, true, true},
		optVars:    []string{"err", "existingPluginMetadata", "newPluginMetadata", "existingPlugin"},
		dropArgs:   []string{"ctx"},
		dropCalls:  g2lLogging,
		wrapErrors: true,
		callSubst: map[string]string{"m.Get": "env.Get", "existingPlugin.GetMetadata": "env.GetMetadata existingPlugin",
			"semver.ComparePluginVersion": "env.ComparePluginVersion", "m.Uninstall": "env.Uninstall",
			"file.CopyToDir": "env.CopyToDir", "file.CopyDirToDir": "env.CopyDirToDir", "errors.Is": "GoLite.errIs"},
	},
}

var srcC20 = []*g2lTarget{
	{
		file: "internal/semver/semver.go", fn: "IsValid", leanName: "IsValid",
		params:    "(env : Env) (version : String)",
		ret:       "Bool",
		retOpt:    []bool{false},
		callSubst: map[string]string{"semVerRegEx.MatchString": "env.MatchString"},
	},
	{
		file: "internal/semver/semver.go", fn: "ComparePluginVersion", leanName: "ComparePluginVersion",
		params:    "(env : Env) (v w : String)",
		ret:       "Int × Option GoLite.Err",
		retOpt:    []bool{false, true},
		callSubst: map[string]string{"IsValid": "IsValid env", "semver.Compare": "env.Compare"},
	},
}

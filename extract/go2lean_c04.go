package main

// Targets of the Go-to-Lean translator for C04: the functions that decide the trusted-identity
// check. Libraries are oracles (parameters of the translated functions): go-ldap's ParseDN in
// internal/pkix, and - in the verifier - pkix.ParseDistinguishedName itself (instantiated with the
// translated one in Props/C04.lean).

func init() {
	families = append(families,
		family{"SrcC04", func() string {
			return g2lFile("pkix", "", srcC04, "NotationModel.Src.TypesC04")
		}},
		family{"SrcC04b", func() string {
			return g2lFile("trustpolicyInternal", g2lDecls("internal/trustpolicy/trustpolicy.go", []string{"Wildcard", "X509Subject"}), nil)
		}},
		family{"SrcC04c", func() string {
			return g2lFile("verifier", "", srcC04c, "NotationModel.Src.TypesC04", "NotationModel.Generated.SrcC04", "NotationModel.Generated.SrcC04b")
		}},
	)
}

var srcC04 = []*g2lTarget{
	{
		file: "internal/pkix/pkix.go", fn: "IsSubsetDN", leanName: "IsSubsetDN",
		params: "(dn1 dn2 : GoLite.Map String String)",
		ret:    "Bool",
		retOpt: []bool{false},
	},
	{
		file: "internal/pkix/pkix.go", fn: "ParseDistinguishedName", leanName: "ParseDistinguishedName",
		// oracle: go-ldap's ParseDN
		params:  "(ldapParseDN : String → Option ldapv3.DN × Option GoLite.Err) (name : String)",
		ret:     "Option (GoLite.Map String String) × Option GoLite.Err",
		retOpt:  []bool{true, true},
		optVars: []string{"dn", "err"},
		// `attribute.Type = "ST"` writes through a pointer into the DN go-ldap has just allocated for this
		// call; the DN is neither returned nor stored, so nobody else sees the write
		ownedVars: []string{"attribute"},
		callSubst: map[string]string{"ldapv3.ParseDN": "ldapParseDN"},
	},
}

var srcC04c = []*g2lTarget{
	{
		file: "verifier/verifier.go", fn: "verifyX509TrustedIdentities", leanName: "verifyX509TrustedIdentities",
		// oracle: pkix.ParseDistinguishedName (a nil map reads as the empty map)
		params:    "(parseDistinguishedName : String → GoLite.Map String String × Option GoLite.Err) (policyName : String) (trustedIdentities : List String) (certs : List x509.Certificate)",
		ret:       "Option GoLite.Err",
		retOpt:    []bool{true},
		optVars:   []string{"err"},
		callSubst: map[string]string{"pkix.ParseDistinguishedName": "parseDistinguishedName"},
	},
}

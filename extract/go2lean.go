package main

// go2lean: a small translator from a subset of Go to Lean 4 `Id.run do` blocks.
//
// A target names one function of /repo, the Lean signature it is to get, and the few
// things that cannot be read off the syntax (which identifiers are nil-able, which calls are
// logging only, how an opaque call is to be spelled). The body is translated statement by
// statement; anything outside the supported subset is a hard `fail` (the family then counts
// as a broken tie, never as a silently different model):
//
//	x := e, x, y := e, x = e, x++, x += e, var x T, x.F[k] = v
//	if [init;] c {..} [else if ..] [else {..}]
//	for _, x := range e / for i, x := range e / for k, v := range m
//	for i := a; i >= b; i-- / for i := a; i < b; i++
//	return .., continue, break, switch with constant cases (as an if-chain)
//	identifiers, literals, selectors, calls, indexing, &&, ||, !, comparisons, + - on ints,
//	struct literals, make(map..), nil, delete(m, k) on an owned map, `v, ok := x.(T)` (callSubst "assert:<T>"),
//	interface{} / any as a type the target names (subst "type:interface{}"),
//	named results (zero-valued mutable locals; bare `return`)
//	strings.HasPrefix / TrimPrefix / CutPrefix, `+` on strings (GoLite instance),
//	`return f(..)` handing on all results of a call;
//	identifiers compared with nil are nil-able without being listed in optVars
//
//	% on ints (Int.tmod); writes through maps shared with the caller (target option sharedMaps)
//	the bit test `a&b != 0` / `a&b == 0` (GoLite.hasBits, class GoLite.HasBits of the operand type)
//	x[:hi], x[lo:], x[lo:hi] (GoLite.sliceTo / sliceFrom); an out argument (outArgs) that is a captured pointer
//	variable instead of `&x`; `.., err := f(..)` + `return .., err`: err is nil-able without being listed
//
// The run-time conventions are those of lean/NotationModel/GoLite.lean.

import (
	"fmt"
	"go/ast"
	"go/parser"
	"go/token"
	"sort"
	"strconv"
	"strings"
)

// Also supported: x[:] (the whole slice) and conversions such as []byte(s) (spelled through
// callSubst "[]byte"). Opt-in per target: optFields (struct fields that are nil-able wherever they
// occur), outArgs (calls that assign through a `&x` argument: the Lean function returns the new
// value of x paired with the call's result), wrapErrors (fmt.Errorf with %w keeps the kind of the
// wrapped error: GoLite.wrapf). A local bound to the result of a dropped call
// (`lg := log.GetLogger(ctx)`) is a logger under whatever name: binding and calls on it are dropped.
type g2lTarget struct {
	// recvName: the name this configuration uses for the RECEIVER (in params, callSubst keys, subst keys). The
	// translator renames the receiver of the Go method to it, so renaming the receiver in the source is harmless
	recvName       string
	file, recv, fn string
	leanName       string            // name of the Lean definition
	params         string            // Lean binders
	ret            string            // Lean result type
	retOpt         []bool            // per result: is it nil-able (pointer / error / interface)?
	optVars        []string          // identifiers that hold nil-able values
	subst          map[string]string // Go expression text (exprText) -> Lean text
	callSubst      map[string]string // Go callee text -> Lean function (arguments kept)
	dropCalls      []string          // callee prefixes of statements without effect on the result (logging)
	intLen         bool
	mapVars        []string // identifiers that hold maps (also read off the syntax): `m[k]` reads with GoLite.Map.get, `range m` iterates over the pairs
	ownedVars      []string // identifiers declared to hold memory only this function sees (e.g. pointers into the
	// fresh result of a library call that is neither returned nor stored): in-place updates through them are
	// allowed; the claim belongs to the trusted base of the theorem that uses the translation
	// part of a function instead of its whole body:
	closureOf   string // translate the body of the function literal passed to this callee (e.g. "repo.ListSignatures")
	after       string // translate the top-level statements AFTER the statement that calls this callee
	classSlices bool   // slice expressions through the class GoLite.Slice (strings as well as lists) instead
	// of the list functions GoLite.sliceTo / sliceFrom
	outer []string // the names this configuration uses for the variables of the ENCLOSING function the part
	// refers to (parameters first, then locals, in declaration order). The translator finds the actual
	// ones by position, not by name, and renames them to these - so renaming such a variable in the Go
	// source changes nothing here. A different NUMBER of such variables is a failure (it lists them).
	captures []string // variables of the enclosing function the part reads and writes: they are
	// parameters of the Lean definition (same names) and are returned, as a tuple, after the results
	dropArgs   []string // identifiers dropped from every argument list (context.Context values)
	dropAssign []string // assignment targets (exprText) whose assignments are left out; each is an
	// abstraction that must be named in the trusted base of the theorem that uses the translation
	nres       int            // number of results of the part (closures: of the function literal)
	optFields  []string       // struct field names that hold nil-able values (pointers, nil-able slices)
	outArgs    map[string]int // Go callee text -> index of the `&x` argument the call assigns
	wrapErrors bool           // fmt.Errorf("..%w..", .., err) -> GoLite.wrapf (the kind of err is kept)
	// sharedMaps: maps the CALLER shares with the function - "p" (a map parameter) or "p.F" (a map field of a
	// struct parameter passed BY VALUE: the struct is the function's own copy, so its fields may be reassigned,
	// but the map behind p.F at entry is the caller's object). Writes through such a map are translated, not
	// refused: the translation keeps a ghost copy `<p_F>_caller` of the caller's map, applies every
	// `p.F[k] = v` to it for as long as p.F has not been re-pointed to a map created in this function (run-time
	// flag `<p_F>_aliased`), and returns the ghosts, in order, after the results (and captures). A tie theorem
	// can then say what the function does to the caller's map. Re-pointing is accepted only to a value created
	// in this function (a local holding one is treated as moved: later in-place updates through it are refused).
	sharedMaps []string
	// mapFields: struct field names that hold maps: `x.F[k]` reads with GoLite.Map.get (what mapVars is for identifiers)
	mapFields []string
	// rangeCopies: the elements of every slice this function ranges over are struct VALUES (not pointers), so a
	// `for _, x := range` value variable is the function's own copy and `x.F = v` stays local. The translator
	// cannot see element types; the claim belongs to the trusted base of the theorem that uses the translation.
	rangeCopies bool
	// zeroFill: a struct literal names only some fields, the others have Go's zero value: spelled
	// `{ (default : T) with f := .. }` (the Lean structure then needs an `Inhabited` instance whose
	// default is the zero value - `deriving Inhabited` gives that for strings, ints, lists, options)
	zeroFill bool
	// mutParams: parameters of the Lean definition the translated text assigns to (variables of the enclosing
	// function in a part, Go parameters passed by value): re-bound as `let mut x := x` at the top
	mutParams []string
	// ptrSlice: ONE slice of POINTERS to structs (exprText, e.g. "outcome.VerificationResults") whose elements the
	// function also holds in locals and updates through them (`r := &T{..}; S = append(S, r); r.F = v`, or
	// `for _, r := range S { if .. { p = r } }; p.F = v`). A value-semantics translation would lose such an update;
	// with ptrSlice every local that is both stored in / loaded from S and updated in place gets a ghost
	// `<x>_at : Int` (its position in S, -1 = not in S) and every `x.F = v` is also written through to S[x_at].
	// Sound as long as S only grows by `S = append(S, ..)` (anything else is refused), a tracked local is appended
	// at most once and not inside a loop, and pointers returned by calls are fresh (trusted base of the theorem).
	ptrSlice string
	// outArgsLast: the Lean counterparts of the calls in outArgs return (result, new value of the out argument) -
	// the order in which a translated function hands back its captures - instead of (new value, result)
	outArgsLast bool
	// optMapFields: struct fields that hold maps whose VALUES are nil-able pointers (`x.F[k]` is then an Option,
	// a missing key reading as nil); they count as mapFields too
	optMapFields []string
	// derefArgs: callees that dereference their pointer arguments at once: a nil-able local passed to one of them
	// is passed as the value it points to (GoLite.deref)
	derefArgs []string
	// optElems: slices (exprText, e.g. "certResults") whose ELEMENTS are nil-able pointers: `x[i]` is an Option
	// (the Lean binder is then `List (Option T)`)
	optElems []string
}

type g2l struct {
	t        *g2lTarget
	opt      map[string]bool
	pkgs     map[string]bool // imported package names of the file
	cur      map[string]bool // names declared in the CURRENT block (see shadowOK)
	curEnd   token.Pos       // end of the current block
	curRet   bool            // the current block ends with a return statement
	inLoop   int             // nesting depth of loops around the current statement
	part     []ast.Stmt      // the statements being translated
	declared map[string]bool // locals already introduced with `let mut` (Go's := may re-declare them; Lean may not shadow)
	owned    map[string]bool // locals holding a value created in this function (literal, make, var of value type):
	// only these may be updated in place - anything else may alias memory the caller or another
	// variable sees, which a value-semantics translation would silently lose
	drop       []string        // dropCalls of the target + "<v>." for every local v := <dropped call>(..)
	shared     map[string]bool // sharedMaps of the target, by exprText
	valueRoots map[string]bool // struct parameters passed by value that have a shared map field
	named      []string        // named results of the function, in order
	tracked    map[string]bool // ptrSlice: locals with a ghost position `<x>_at`
	rangeS     map[string]bool // ptrSlice: value variables of the enclosing `range S` loops
	namedTypes []ast.Expr      // their types
}

// ghost names of a shared map path
func g2lGhost(path string) string { return strings.ReplaceAll(path, ".", "_") }

var leanReserved = map[string]bool{"end": true, "from": true, "at": true, "open": true, "then": true, "do": true, "fun": true,
	"let": true, "have": true, "show": true, "match": true, "with": true, "in": true, "by": true, "at_": true, "if": true,
	"else": true, "for": true, "def": true, "theorem": true, "instance": true, "structure": true, "where": true, "variable": true,
	"section": true, "namespace": true, "import": true, "prefix": true, "infix": true, "notation": true, "macro": true, "syntax": true,
	"Type": true, "Prop": true, "Sort": true, "set_option": true, "mut": true, "return": true, "class": true, "deriving": true,
	"universe": true, "example": true, "abbrev": true, "inductive": true, "mutual": true, "private": true, "protected": true,
	"partial": true, "unsafe": true, "noncomputable": true, "attribute": true, "export": true, "local": true, "scoped": true,
	"exists": true, "forall": true, "calc": true, "suffices": true, "obtain": true, "using": true, "nomatch": true, "nofun": true, "extends": true, "true": false, "false": false}

func g2lIdent(s string) string {
	if leanReserved[s] {
		return "«" + s + "»"
	}
	if s == "_" {
		return "_"
	}
	return s
}

func (g *g2l) fail(n ast.Node, format string, a ...any) {
	pos := fset.Position(n.Pos())
	fail("go2lean %s.%s (%s:%d): %s", g.t.recv, g.t.fn, g.t.file, pos.Line, fmt.Sprintf(format, a...))
}

func (g *g2l) isOpt(e ast.Expr) bool {
	if id, ok := e.(*ast.Ident); ok {
		return g.opt[id.Name]
	}
	if se, ok := e.(*ast.SelectorExpr); ok {
		return g.optField(se.Sel.Name)
	}
	if ie, ok := e.(*ast.IndexExpr); ok {
		for _, f := range g.t.optElems {
			if f == exprText(ie.X) {
				return true
			}
		}
		if se, ok := ie.X.(*ast.SelectorExpr); ok {
			for _, f := range g.t.optMapFields {
				if f == se.Sel.Name {
					return true
				}
			}
		}
	}
	return false
}

func (g *g2l) optField(name string) bool {
	for _, f := range g.t.optFields {
		if f == name {
			return true
		}
	}
	return false
}

// wrapVerbArg returns the argument matched by the %w verb of a fmt.Errorf call, if any.
func wrapVerbArg(format string, args []ast.Expr) ast.Expr {
	n := 0
	for i := 0; i+1 < len(format); i++ {
		if format[i] != '%' {
			continue
		}
		j := i + 1
		for j < len(format) && strings.ContainsRune("+-# 0123456789.[]*", rune(format[j])) {
			j++
		}
		if j >= len(format) {
			break
		}
		if format[j] == '%' {
			i = j
			continue
		}
		if format[j] == 'w' && n < len(args) {
			return args[n]
		}
		n++
		i = j
	}
	return nil
}

func (g *g2l) isMapVar(name string) bool {
	for _, m := range g.t.mapVars {
		if m == name {
			return true
		}
	}
	return false
}

func isNil(e ast.Expr) bool {
	id, ok := e.(*ast.Ident)
	return ok && id.Name == "nil"
}

// expr translates an expression to Lean text (always parenthesised when compound).
func (g *g2l) expr(e ast.Expr) string {
	if s, ok := g.t.subst[exprText(e)]; ok {
		return s
	}
	switch x := e.(type) {
	case *ast.Ident:
		switch x.Name {
		case "nil":
			return "none"
		case "true", "false":
			return x.Name
		}
		return g2lIdent(x.Name)
	case *ast.BasicLit:
		switch x.Kind {
		case token.INT:
			return "(" + x.Value + " : Int)"
		case token.STRING:
			v, err := strconv.Unquote(x.Value)
			if err != nil {
				g.fail(e, "string literal %s", x.Value)
			}
			return leanStr(v)
		case token.CHAR:
			v, _, _, err := strconv.UnquoteChar(x.Value[1:len(x.Value)-1], '\'')
			if err != nil {
				g.fail(e, "char literal %s", x.Value)
			}
			return fmt.Sprintf("(Char.ofNat %d)", v)
		}
		g.fail(e, "literal %s", x.Value)
	case *ast.ParenExpr:
		return g.expr(x.X)
	case *ast.SelectorExpr:
		if id, ok := x.X.(*ast.Ident); ok && g.pkgs[id.Name] {
			return g2lIdent(id.Name) + "." + g2lIdent(x.Sel.Name)
		}
		if g.isOpt(x.X) {
			return "(GoLite.deref " + g.expr(x.X) + ")." + g2lIdent(x.Sel.Name)
		}
		return g.atom(x.X) + "." + g2lIdent(x.Sel.Name)
	case *ast.StarExpr:
		if g.isOpt(x.X) {
			return "(GoLite.deref " + g.expr(x.X) + ")"
		}
		return g.expr(x.X)
	case *ast.UnaryExpr:
		switch x.Op {
		case token.NOT:
			return "(!" + g.expr(x.X) + ")"
		case token.AND:
			return g.expr(x.X)
		case token.SUB:
			return "(-" + g.expr(x.X) + ")"
		}
		g.fail(e, "unary operator %s", x.Op)
	case *ast.BinaryExpr:
		return g.binary(x)
	case *ast.IndexExpr:
		if id, ok := x.X.(*ast.Ident); ok && g.isMapVar(id.Name) {
			return "(GoLite.Map.get " + g.expr(x.X) + " " + g.expr(x.Index) + ")"
		}
		if se, ok := x.X.(*ast.SelectorExpr); ok {
			for _, f := range append(append([]string{}, g.t.mapFields...), g.t.optMapFields...) {
				if f == se.Sel.Name {
					return "(GoLite.Map.get " + g.expr(x.X) + " " + g.expr(x.Index) + ")"
				}
			}
		}
		return "(GoLite.idx " + g.expr(x.X) + " " + g.expr(x.Index) + ")"
	case *ast.CallExpr:
		return g.call(x)
	case *ast.CompositeLit:
		return g.composite(x)
	case *ast.SliceExpr:
		if x.Low == nil && x.High == nil && x.Max == nil {
			return g.expr(x.X) // x[:] - the whole array / slice
		}
		if x.Max == nil && !x.Slice3 && g.t.classSlices {
			// the target slices STRINGS (or both): GoLite.slice of class GoLite.Slice (String by character, List)
			lo, hi := "(0 : Int)", "none"
			if x.Low != nil {
				lo = g.expr(x.Low)
			}
			if x.High != nil {
				hi = "(some " + g.expr(x.High) + ")"
			}
			return "(GoLite.slice " + g.expr(x.X) + " " + lo + " " + hi + ")"
		}
		if x.Max == nil && !x.Slice3 {
			// x[lo:hi] = (x[:hi])[lo:]; Go panics where a bound is out of range, GoLite.sliceTo / sliceFrom clamp
			// (absence of panics is not the translator's business, see GoLite.deref)
			s := g.expr(x.X)
			if x.High != nil {
				s = "(GoLite.sliceTo " + s + " " + g.expr(x.High) + ")"
			}
			if x.Low != nil {
				s = "(GoLite.sliceFrom " + s + " " + g.expr(x.Low) + ")"
			}
			return s
		}
	}
	g.fail(e, "unsupported expression %s (%T)", exprText(e), e)
	return ""
}

// atom: an expression usable before a field projection
func (g *g2l) atom(e ast.Expr) string {
	s := g.expr(e)
	if strings.ContainsAny(s, " ") && !strings.HasPrefix(s, "(") {
		return "(" + s + ")"
	}
	return s
}

// g2lBitTest recognises `a&b != 0` / `a&b == 0` (operands in either order): the two operands of `&`.
func g2lBitTest(x *ast.BinaryExpr) (ast.Expr, ast.Expr, bool) {
	isZero := func(e ast.Expr) bool {
		bl, ok := e.(*ast.BasicLit)
		return ok && bl.Kind == token.INT && bl.Value == "0"
	}
	and, zero := x.X, x.Y
	if isZero(and) {
		and, zero = zero, and
	}
	if p, ok := and.(*ast.ParenExpr); ok {
		and = p.X
	}
	be, ok := and.(*ast.BinaryExpr)
	if !ok || be.Op != token.AND || !isZero(zero) {
		return nil, nil, false
	}
	return be.X, be.Y, true
}

func (g *g2l) binary(x *ast.BinaryExpr) string {
	switch x.Op {
	case token.EQL, token.NEQ:
		// the bit test a&b != 0 / a&b == 0
		if a, b, ok := g2lBitTest(x); ok {
			t := "(GoLite.hasBits " + g.atom(a) + " " + g.atom(b) + ")"
			if x.Op == token.EQL {
				return "(!" + t + ")"
			}
			return t
		}
		// comparisons with nil
		if isNil(x.Y) || isNil(x.X) {
			o := x.X
			if isNil(x.X) {
				o = x.Y
			}
			if x.Op == token.EQL {
				return "(" + g.atom(o) + ").isNone"
			}
			return "(" + g.atom(o) + ").isSome"
		}
		l, r := g.expr(x.X), g.expr(x.Y)
		// a nil-able value compared with a plain one
		if g.isOpt(x.X) && !g.isOpt(x.Y) {
			r = "(some " + r + ")"
		} else if g.isOpt(x.Y) && !g.isOpt(x.X) {
			l = "(some " + l + ")"
		}
		op := "=="
		if x.Op == token.NEQ {
			op = "!="
		}
		return "(" + l + " " + op + " " + r + ")"
	case token.LAND:
		return "(" + g.expr(x.X) + " && " + g.expr(x.Y) + ")"
	case token.LOR:
		return "(" + g.expr(x.X) + " || " + g.expr(x.Y) + ")"
	case token.LSS, token.GTR, token.LEQ, token.GEQ:
		return "(decide (" + g.expr(x.X) + " " + x.Op.String() + " " + g.expr(x.Y) + "))"
	case token.ADD, token.SUB, token.MUL:
		return "(" + g.expr(x.X) + " " + x.Op.String() + " " + g.expr(x.Y) + ")"
	case token.REM:
		return "(Int.tmod " + g.expr(x.X) + " " + g.expr(x.Y) + ")" // Go's % truncates towards zero
	}
	g.fail(x, "binary operator %s", x.Op)
	return ""
}

func (g *g2l) call(x *ast.CallExpr) string {
	name := callName(x)
	if _, ok := x.Fun.(*ast.ArrayType); ok {
		name = exprText(x.Fun) // conversion such as []byte(s): spelled through callSubst
	}
	var kept []ast.Expr
	for _, e := range x.Args {
		drop := false
		if id, ok := e.(*ast.Ident); ok {
			for _, d := range g.t.dropArgs {
				if d == id.Name {
					drop = true
				}
			}
		}
		if !drop {
			kept = append(kept, e)
		}
	}
	x = &ast.CallExpr{Fun: x.Fun, Lparen: x.Lparen, Args: kept, Ellipsis: x.Ellipsis, Rparen: x.Rparen}
	fun := x.Fun
	if ie, ok := fun.(*ast.IndexExpr); ok {
		// f[T](args), an explicit instantiation of a generic function: the type argument is dropped
		fun = ie.X
		name = exprText(fun)
	}
	derefs := false
	for _, d := range g.t.derefArgs {
		if d == name {
			derefs = true
		}
	}
	args := func() string {
		var a []string
		for _, e := range x.Args {
			if id, ok := e.(*ast.Ident); ok && derefs && g.opt[id.Name] {
				a = append(a, "(GoLite.deref "+g.expr(e)+")")
				continue
			}
			a = append(a, g.expr(e))
		}
		return strings.Join(a, " ")
	}
	if f, ok := g.t.callSubst[name]; ok {
		if len(x.Args) == 0 {
			return f
		}
		return "(" + f + " " + args() + ")"
	}
	switch name {
	case "len":
		return "(GoLite.len " + g.expr(x.Args[0]) + ")"
	case "slices.Contains":
		return "(GoLite.contains " + args() + ")"
	case "strings.ContainsAny":
		return "(GoLite.containsAny " + args() + ")"
	case "strings.TrimSpace":
		return "(GoLite.trimSpace " + args() + ")"
	case "strings.HasPrefix":
		return "(GoLite.hasPrefix " + args() + ")"
	case "strings.TrimPrefix":
		return "(GoLite.trimPrefix " + args() + ")"
	case "strings.CutPrefix":
		return "(GoLite.cutPrefix " + args() + ")"
	case "strings.Cut":
		// one-character separators only
		if bl, ok := x.Args[1].(*ast.BasicLit); ok && bl.Kind == token.STRING {
			v, _ := strconv.Unquote(bl.Value)
			if len([]rune(v)) == 1 {
				return fmt.Sprintf("(GoLite.cut %s (Char.ofNat %d))", g.expr(x.Args[0]), []rune(v)[0])
			}
		}
		g.fail(x, "strings.Cut with a separator that is not a one-character literal")
	case "errors.New", "fmt.Errorf":
		if bl, ok := x.Args[0].(*ast.BasicLit); ok && bl.Kind == token.STRING {
			v, _ := strconv.Unquote(bl.Value)
			if g.t.wrapErrors && name == "fmt.Errorf" {
				if w := wrapVerbArg(v, x.Args[1:]); w != nil {
					return "(GoLite.wrapf " + leanStr(v) + " " + g.expr(w) + ")"
				}
			}
			return "(GoLite.errorf " + leanStr(v) + ")"
		}
		return "(GoLite.errorf \"\")"
	case "make":
		// make(map[K]V) / make([]T, ..): the empty association list / list, with its type
		switch x.Args[0].(type) {
		case *ast.MapType, *ast.ArrayType:
			return "([] : " + strings.Trim(g2lType(g, x.Args[0]), "()") + ")"
		}
		return "[]"
	case "append":
		if x.Ellipsis != token.NoPos && len(x.Args) == 2 {
			return "(" + g.expr(x.Args[0]) + " ++ " + g.expr(x.Args[1]) + ")"
		}
		var a []string
		for _, e := range x.Args[1:] {
			if id, ok := e.(*ast.Ident); ok && g.t.ptrSlice != "" && exprText(x.Args[0]) == g.t.ptrSlice && g.opt[id.Name] {
				// the pointer slice holds non-nil pointers (its elements are dereferenced without a check)
				a = append(a, "(GoLite.deref "+g.expr(e)+")")
				continue
			}
			a = append(a, g.expr(e))
		}
		return "(" + g.expr(x.Args[0]) + " ++ [" + strings.Join(a, ", ") + "])"
	}
	// conversion T(x) to a named string type: the identity
	switch fn := fun.(type) {
	case *ast.SelectorExpr:
		if id, ok := fn.X.(*ast.Ident); ok && g.pkgs[id.Name] {
			if len(x.Args) == 0 {
				return g2lIdent(id.Name) + "." + g2lIdent(fn.Sel.Name)
			}
			return "(" + g2lIdent(id.Name) + "." + g2lIdent(fn.Sel.Name) + " " + args() + ")"
		}
		// method call
		recv := g.atom(fn.X)
		if g.isOpt(fn.X) {
			recv = "(GoLite.deref " + recv + ")"
		}
		if len(x.Args) == 0 {
			return recv + "." + g2lIdent(fn.Sel.Name)
		}
		return "(" + recv + "." + g2lIdent(fn.Sel.Name) + " " + args() + ")"
	case *ast.Ident:
		if len(x.Args) == 0 {
			return g2lIdent(fn.Name)
		}
		return "(" + g2lIdent(fn.Name) + " " + args() + ")"
	}
	g.fail(x, "unsupported call %s", exprText(x))
	return ""
}

func (g *g2l) composite(x *ast.CompositeLit) string {
	tn := g2lType(g, x.Type)
	switch x.Type.(type) {
	case *ast.MapType:
		var ps []string
		for _, el := range x.Elts {
			kv, ok := el.(*ast.KeyValueExpr)
			if !ok {
				g.fail(x, "map literal element")
			}
			ps = append(ps, "("+g.expr(kv.Key)+", "+g.expr(kv.Value)+")")
		}
		return "[" + strings.Join(ps, ", ") + "]"
	case *ast.ArrayType:
		var ps []string
		for _, el := range x.Elts {
			ps = append(ps, g.expr(el))
		}
		return "[" + strings.Join(ps, ", ") + "]"
	}
	// error types carry only their kind
	if strings.HasSuffix(tn, "Error") || strings.HasPrefix(tn[strings.LastIndex(tn, ".")+1:], "Err") {
		return "(GoLite.errT " + leanStr(exprText(x.Type)) + " \"\")"
	}
	if len(x.Elts) == 0 {
		return "(default : " + tn + ")"
	}
	var fs []string
	for _, el := range x.Elts {
		kv, ok := el.(*ast.KeyValueExpr)
		if !ok {
			g.fail(x, "positional struct literal")
		}
		fv := g.expr(kv.Value)
		_, isCall := kv.Value.(*ast.CallExpr)
		if c, ok := kv.Value.(*ast.CallExpr); ok && (callName(c) == "fmt.Errorf" || callName(c) == "errors.New") {
			isCall = false // an error constructor yields a value, never nil: it is wrapped like any other value
		}
		if g.optField(kv.Key.(*ast.Ident).Name) && !isNil(kv.Value) && !g.isOpt(kv.Value) && !isCall {
			fv = "(some " + fv + ")"
		}
		fs = append(fs, g2lIdent(kv.Key.(*ast.Ident).Name)+" := "+fv)
	}
	if g.t.zeroFill {
		return "({ (default : " + tn + ") with " + strings.Join(fs, ", ") + " } : " + tn + ")"
	}
	return "({ " + strings.Join(fs, ", ") + " } : " + tn + ")"
}

func g2lType(g *g2l, e ast.Expr) string {
	switch x := e.(type) {
	case *ast.Ident:
		switch x.Name {
		case "string":
			return "String"
		case "int":
			return "Int"
		case "bool":
			return "Bool"
		case "error":
			return "(Option GoLite.Err)"
		case "any":
			if t, ok := g.t.subst["type:interface{}"]; ok {
				return t
			}
		}
		return g2lIdent(x.Name)
	case *ast.SelectorExpr:
		if id, ok := x.X.(*ast.Ident); ok {
			return g2lIdent(id.Name) + "." + g2lIdent(x.Sel.Name)
		}
		return exprText(x)
	case *ast.StarExpr:
		return g2lType(g, x.X)
	case *ast.ArrayType:
		return "(List " + g2lType(g, x.Elt) + ")"
	case *ast.MapType:
		return "(GoLite.Map " + g2lType(g, x.Key) + " " + g2lType(g, x.Value) + ")"
	case *ast.InterfaceType:
		// interface{}: the dynamic values that occur are a type the target names (subst "type:interface{}")
		if x.Methods == nil || len(x.Methods.List) == 0 {
			if t, ok := g.t.subst["type:interface{}"]; ok {
				return t
			}
		}
	}
	g.fail(e, "unsupported type %s", exprText(e))
	return ""
}

// ---- statements ----

type g2lOut struct {
	b strings.Builder
}

func (o *g2lOut) line(ind int, s string) {
	o.b.WriteString(strings.Repeat("  ", ind))
	o.b.WriteString(s)
	o.b.WriteByte('\n')
}

func (g *g2l) dropped(s ast.Stmt) bool {
	es, ok := s.(*ast.ExprStmt)
	if !ok {
		return false
	}
	c, ok := es.X.(*ast.CallExpr)
	if !ok {
		return false
	}
	return g.droppedCall(c)
}

func (g *g2l) droppedCall(c *ast.CallExpr) bool {
	n := callName(c)
	drop := g.drop
	if drop == nil {
		drop = g.t.dropCalls
	}
	for _, p := range drop {
		if strings.HasPrefix(n, p) {
			return true
		}
	}
	return false
}

// loggerDecl: `v := log.GetLogger(ctx)` - a local bound to the result of a dropped call
func (g *g2l) loggerDecl(s ast.Stmt) (string, bool) {
	as, ok := s.(*ast.AssignStmt)
	if !ok || as.Tok != token.DEFINE || len(as.Lhs) != 1 || len(as.Rhs) != 1 {
		return "", false
	}
	id, ok := as.Lhs[0].(*ast.Ident)
	c, ok2 := as.Rhs[0].(*ast.CallExpr)
	if !ok || !ok2 || !g.droppedCall(c) {
		return "", false
	}
	return id.Name, true
}

// pure reports that a statement list has no effect on the result: only dropped calls,
// `continue` at the end of a loop body made of such, and control flow over them.
func (g *g2l) inert(list []ast.Stmt, inLoop bool) bool {
	for _, s := range list {
		switch x := s.(type) {
		case *ast.ExprStmt:
			if !g.dropped(s) {
				return false
			}
		case *ast.IfStmt:
			if x.Init != nil || !g.inert(x.Body.List, inLoop) {
				return false
			}
			if x.Else != nil {
				switch e := x.Else.(type) {
				case *ast.BlockStmt:
					if !g.inert(e.List, inLoop) {
						return false
					}
				default:
					if !g.inert([]ast.Stmt{x.Else}, inLoop) {
						return false
					}
				}
			}
		case *ast.RangeStmt:
			if !g.inert(x.Body.List, true) {
				return false
			}
		case *ast.BranchStmt:
			if !(inLoop && x.Tok == token.CONTINUE) {
				return false
			}
		case *ast.EmptyStmt:
		case *ast.AssignStmt:
			if _, ok := g.loggerDecl(s); !ok {
				return false
			}
		default:
			return false
		}
	}
	return true
}

func (g *g2l) block(o *g2lOut, ind int, list []ast.Stmt) {
	// Go scoping: what a block declares is gone at its end (a later `x, err := f()` outside
	// declares a new err, in Lean as in Go)
	outer := make(map[string]bool, len(g.declared))
	for k, v := range g.declared {
		outer[k] = v
	}
	oc, oe, orr := g.cur, g.curEnd, g.curRet
	g.cur = map[string]bool{}
	if len(list) > 0 {
		g.curEnd = list[len(list)-1].End()
		_, g.curRet = list[len(list)-1].(*ast.ReturnStmt)
	}
	if oc == nil {
		// the outermost block of the translated part: parameters / captured variables live in this scope
		for k := range g.declared {
			g.cur[k] = true
		}
	}
	defer func() { g.declared, g.cur, g.curEnd, g.curRet = outer, oc, oe, orr }()
	n := 0
	for _, s := range list {
		if g.inert([]ast.Stmt{s}, false) {
			continue // logging only
		}
		g.stmt(o, ind, s)
		n++
	}
	if n == 0 {
		o.line(ind, "pure ()")
	}
}

func (g *g2l) assignTo(o *g2lOut, ind int, lhs ast.Expr, rhs string, define bool, n ast.Node) {
	mustOwn := func(root *ast.Ident) {
		if g.tracked[root.Name] {
			return // every pointer the local may hold is accounted for by its ghost position (see ptrSlice)
		}
		if !g.owned[root.Name] {
			g.fail(n, "in-place update through %s, which was not created in this function (it may alias memory other code sees)", root.Name)
		}
	}
	if g.shared[exprText(lhs)] {
		// re-pointing a shared map: from here on the function works on a map of its own
		gh := g2lGhost(exprText(lhs))
		switch l := lhs.(type) {
		case *ast.Ident:
			o.line(ind, g2lIdent(l.Name)+" := "+rhs)
		case *ast.SelectorExpr:
			r := g2lIdent(l.X.(*ast.Ident).Name)
			o.line(ind, fmt.Sprintf("%s := { %s with %s := %s }", r, r, g2lIdent(l.Sel.Name), rhs))
		}
		o.line(ind, gh+"_aliased := false")
		return
	}
	if ie, ok := lhs.(*ast.IndexExpr); ok && g.shared[exprText(ie.X)] {
		// a write through a shared map: into the function's view of it, and - while it still is the caller's
		// object - into the caller's map
		gh := g2lGhost(exprText(ie.X))
		k := g.expr(ie.Index)
		switch b := ie.X.(type) {
		case *ast.Ident:
			r := g2lIdent(b.Name)
			o.line(ind, fmt.Sprintf("%s := GoLite.Map.set %s %s %s", r, r, k, rhs))
		case *ast.SelectorExpr:
			r := g2lIdent(b.X.(*ast.Ident).Name)
			f := g2lIdent(b.Sel.Name)
			o.line(ind, fmt.Sprintf("%s := { %s with %s := GoLite.Map.set %s.%s %s %s }", r, r, f, r, f, k, rhs))
		}
		o.line(ind, fmt.Sprintf("if %s_aliased then", gh))
		o.line(ind+1, fmt.Sprintf("%s_caller := GoLite.Map.set %s_caller %s %s", gh, gh, k, rhs))
		return
	}
	if se, ok := lhs.(*ast.SelectorExpr); ok {
		if root, ok := se.X.(*ast.Ident); ok && g.valueRoots[root.Name] {
			// another field of a by-value struct parameter: the struct is this function's copy
			r := g2lIdent(root.Name)
			o.line(ind, fmt.Sprintf("%s := { %s with %s := %s }", r, r, g2lIdent(se.Sel.Name), rhs))
			return
		}
	}
	switch l := lhs.(type) {
	case *ast.Ident:
		if define {
			g.shadowOK(l)
		}
		if define && l.Name != "_" && !g.declared[l.Name] {
			g.declared[l.Name] = true
			o.line(ind, "let mut "+g2lIdent(l.Name)+" := "+rhs)
		} else if l.Name == "_" {
			o.line(ind, "let _ := "+rhs)
		} else {
			o.line(ind, g2lIdent(l.Name)+" := "+rhs)
		}
		return
	case *ast.IndexExpr:
		// x.F[k] = v / m[k] = v : association-list update
		switch base := l.X.(type) {
		case *ast.SelectorExpr:
			if root, ok := base.X.(*ast.Ident); ok {
				mustOwn(root)
				r := g2lIdent(root.Name)
				f := g2lIdent(base.Sel.Name)
				o.line(ind, fmt.Sprintf("%s := { %s with %s := GoLite.Map.set %s.%s %s %s }", r, r, f, r, f, g.expr(l.Index), rhs))
				return
			}
		case *ast.Ident:
			mustOwn(base)
			r := g2lIdent(base.Name)
			o.line(ind, fmt.Sprintf("%s := GoLite.Map.set %s %s %s", r, r, g.expr(l.Index), rhs))
			return
		}
	case *ast.SelectorExpr:
		if root, ok := l.X.(*ast.Ident); ok {
			mustOwn(root)
			r := g2lIdent(root.Name)
			val := r
			if g.opt[root.Name] {
				// through a nil-able local (Go panics on nil; here the update applies to the zero value, see GoLite.deref)
				o.line(ind, fmt.Sprintf("%s := some { (GoLite.deref %s) with %s := %s }", r, r, g2lIdent(l.Sel.Name), rhs))
				val = "(GoLite.deref " + r + ")"
			} else {
				o.line(ind, fmt.Sprintf("%s := { %s with %s := %s }", r, r, g2lIdent(l.Sel.Name), rhs))
			}
			if g.tracked[root.Name] {
				// the object also sits in the pointer slice: the update is seen there
				at := g2lIdent(root.Name + "_at")
				se, err := parser.ParseExpr(g.t.ptrSlice)
				if err != nil {
					g.fail(n, "ptrSlice %q: %v", g.t.ptrSlice, err)
				}
				o.line(ind, fmt.Sprintf("if %s ≥ 0 then", at))
				g.assignTo(o, ind+1, se, fmt.Sprintf("(GoLite.setAt %s %s %s)", g.expr(se), at, val), false, n)
			}
			return
		}
	}
	g.fail(n, "unsupported assignment target %s", exprText(lhs))
}

// g2lOptionCall: a call whose (nil-able) result is already an Option in Lean: every call except
// the constructors of error values
func g2lOptionCall(e ast.Expr) bool {
	c, ok := e.(*ast.CallExpr)
	if !ok {
		return false
	}
	switch callName(c) {
	case "fmt.Errorf", "errors.New":
		return false
	}
	return true
}

// shadowOK is called when `x := e` in a nested block re-declares a name of an enclosing block.
// Go creates a NEW variable there; this translator assigns to the outer one instead, which is the
// same thing exactly when nothing reads the outer variable afterwards (see g2lRenameShadows).
func (g *g2l) shadowOK(id *ast.Ident) {
	if g.cur == nil || g.cur[id.Name] || !g.declared[id.Name] || id.Name == "_" {
		if g.cur != nil {
			g.cur[id.Name] = true
		}
		return
	}
	g.cur[id.Name] = true
	// g2lRenameShadows has already given a fresh name to every inner variable whose outer namesake is
	// still used afterwards (or anywhere in an enclosing loop): what is left shadows a dead variable,
	// and assigning to that one is the same thing
}

// g2lCreates: the expression creates a fresh value (literal, &literal, make, new)
func g2lCreates(e ast.Expr) bool {
	switch x := e.(type) {
	case *ast.CompositeLit:
		return true
	case *ast.UnaryExpr:
		if x.Op == token.AND {
			_, ok := x.X.(*ast.CompositeLit)
			return ok
		}
	case *ast.CallExpr:
		if id, ok := x.Fun.(*ast.Ident); ok && (id.Name == "make" || id.Name == "new") {
			return true
		}
	case *ast.BasicLit:
		return true
	}
	return false
}

// outArg: for a call listed in outArgs, the variable behind its `&x` argument
func (g *g2l) outArg(e ast.Expr) ast.Expr {
	c, ok := e.(*ast.CallExpr)
	if !ok {
		return nil
	}
	i, ok := g.t.outArgs[callName(c)]
	if !ok || i >= len(c.Args) {
		return nil
	}
	if ue, ok := c.Args[i].(*ast.UnaryExpr); ok && ue.Op == token.AND {
		if _, ok := ue.X.(*ast.Ident); ok {
			return ue.X
		}
	}
	// a pointer the function (or part) was handed from outside and that the target threads through as a capture:
	// the call assigns through it just as through `&x`
	if id, ok := c.Args[i].(*ast.Ident); ok {
		for _, cp := range g.t.captures {
			if cp == id.Name {
				return id
			}
		}
		// a pointer to an object this function created itself (`p := &T{}; f(.., p)`): the callee fills it in
		if g.owned[id.Name] {
			return id
		}
	}
	g.fail(e, "out argument %d of %s is not `&x`", i, callName(c))
	return nil
}

// value of e when stored into lhs (nil-able targets get `some`)
func (g *g2l) valueFor(lhs ast.Expr, e ast.Expr) string {
	v := g.expr(e)
	if g.isOpt(lhs) && !isNil(e) && !g.isOpt(e) {
		if _, isCall := e.(*ast.CallExpr); !isCall || !g2lOptionCall(e) { // calls producing nil-able values are already Options (error constructors are not)
			return "(some " + v + ")"
		}
	}
	return v
}

func (g *g2l) stmt(o *g2lOut, ind int, s ast.Stmt) {
	switch x := s.(type) {
	case *ast.EmptyStmt:
	case *ast.DeclStmt:
		gd := x.Decl.(*ast.GenDecl)
		if gd.Tok != token.VAR {
			g.fail(s, "declaration %s", gd.Tok)
		}
		for _, sp := range gd.Specs {
			vs := sp.(*ast.ValueSpec)
			for i, n := range vs.Names {
				g.declared[n.Name] = true
				if g.tracked[n.Name] {
					if i < len(vs.Values) {
						g.fail(s, "tracked pointer %s declared with an initial value (use an assignment)", n.Name)
					}
					o.line(ind, g2lIdent(n.Name+"_at")+" := -1")
				}
				if i < len(vs.Values) {
					g.owned[n.Name] = g2lCreates(vs.Values[i])
					o.line(ind, "let mut "+g2lIdent(n.Name)+" := "+g.expr(vs.Values[i]))
					continue
				}
				if _, ptr := vs.Type.(*ast.StarExpr); !ptr {
					if _, isMap := vs.Type.(*ast.MapType); !isMap {
						g.owned[n.Name] = true // a zero value of value type is this function's own
					}
				}
				if vs.Type == nil {
					g.fail(s, "var without type")
				}
				ty := g2lType(g, vs.Type)
				if at, isArr := vs.Type.(*ast.ArrayType); isArr {
					// a slice of pointers listed in optElems: its elements are nil-able
					if st, ptr := at.Elt.(*ast.StarExpr); ptr {
						for _, f := range g.t.optElems {
							if f == n.Name {
								ty = "(List (Option " + g2lType(g, st.X) + "))"
							}
						}
					}
				}
				if _, ptr := vs.Type.(*ast.StarExpr); ptr || g.opt[n.Name] {
					g.opt[n.Name] = true
					if !strings.HasPrefix(ty, "(Option") {
						ty = "(Option " + ty + ")"
					}
					o.line(ind, "let mut "+g2lIdent(n.Name)+" : "+ty+" := none")
				} else {
					o.line(ind, "let mut "+g2lIdent(n.Name)+" : "+ty+" := default")
				}
			}
		}
	case *ast.AssignStmt:
		define := x.Tok == token.DEFINE
		if len(x.Lhs) == 1 {
			for _, d := range g.t.dropAssign {
				if exprText(x.Lhs[0]) == d {
					return
				}
			}
		}
		switch {
		case x.Tok == token.ADD_ASSIGN || x.Tok == token.SUB_ASSIGN:
			op := "+"
			if x.Tok == token.SUB_ASSIGN {
				op = "-"
			}
			g.assignTo(o, ind, x.Lhs[0], "("+g.expr(x.Lhs[0])+" "+op+" "+g.expr(x.Rhs[0])+")", false, s)
		case x.Tok != token.ASSIGN && x.Tok != token.DEFINE:
			g.fail(s, "assignment operator %s", x.Tok)
		case len(x.Lhs) == 1 && len(x.Rhs) == 1 && g.outArg(x.Rhs[0]) != nil:
			// r := f(a, &v): the Lean f returns (new v, r)
			c := x.Rhs[0].(*ast.CallExpr)
			out := g.outArg(x.Rhs[0])
			if g.t.outArgsLast {
				o.line(ind, "let (r', o') := "+g.call(c))
			} else {
				o.line(ind, "let (o', r') := "+g.call(c))
			}
			g.assignTo(o, ind, out, "o'", false, s)
			g.assignTo(o, ind, x.Lhs[0], "r'", define, s)
		case len(x.Lhs) == len(x.Rhs):
			for i := range x.Lhs {
				if g.shared[exprText(x.Lhs[i])] {
					if id, ok := x.Rhs[i].(*ast.Ident); ok && g.owned[id.Name] {
						g.owned[id.Name] = false // moved: the map now has two names
					} else if !g2lCreates(x.Rhs[i]) {
						g.fail(s, "shared map %s re-pointed to %s, which was not created in this function", exprText(x.Lhs[i]), exprText(x.Rhs[i]))
					}
					g.assignTo(o, ind, x.Lhs[i], g.valueFor(x.Lhs[i], x.Rhs[i]), false, s)
					continue
				}
				if id, ok := x.Lhs[i].(*ast.Ident); ok {
					g.owned[id.Name] = g2lCreates(x.Rhs[i])
				}
				if g.t.ptrSlice != "" && exprText(x.Lhs[i]) == g.t.ptrSlice {
					// the pointer slice may only grow by `S = append(S, ..)`; a tracked local that goes in learns its position
					c, ok := x.Rhs[i].(*ast.CallExpr)
					if !ok || callName(c) != "append" || len(c.Args) < 1 || exprText(c.Args[0]) != g.t.ptrSlice || c.Ellipsis != token.NoPos {
						if len(g.tracked) > 0 {
							g.fail(s, "%s is assigned something other than append(%s, ..) while locals point into it", g.t.ptrSlice, g.t.ptrSlice)
						}
					} else {
						for j, a := range c.Args[1:] {
							if id, ok := a.(*ast.Ident); ok && g.tracked[id.Name] {
								if g.inLoop > 0 {
									g.fail(s, "%s is appended to %s inside a loop", id.Name, g.t.ptrSlice)
								}
								o.line(ind, fmt.Sprintf("%s := GoLite.len %s + %d", g2lIdent(id.Name+"_at"), g.expr(c.Args[0]), j))
							}
						}
					}
				}
				v := g.valueFor(x.Lhs[i], x.Rhs[i])
				if id, ok := x.Lhs[i].(*ast.Ident); ok && define && !g.declared[id.Name] && g.isOpt(x.Rhs[i]) {
					g.opt[id.Name] = true // a variable initialised from a nil-able value is nil-able
				}
				g.assignTo(o, ind, x.Lhs[i], v, define, s)
				if id, ok := x.Lhs[i].(*ast.Ident); ok && g.tracked[id.Name] {
					// where does the pointer now held by the tracked local sit in the pointer slice?
					at := g2lIdent(id.Name + "_at")
					rid, isId := x.Rhs[i].(*ast.Ident)
					_, isCall := x.Rhs[i].(*ast.CallExpr)
					switch {
					case isId && g.rangeS[rid.Name]:
						o.line(ind, at+" := "+g2lIdent(rid.Name+"_at"))
					case isNil(x.Rhs[i]) || g2lCreates(x.Rhs[i]) || isCall:
						// a fresh object, or the result of a call (trusted to be fresh: see ptrSlice)
						o.line(ind, at+" := -1")
					default:
						g.fail(s, "tracked pointer %s assigned from %s: its position in %s is unknown", id.Name, exprText(x.Rhs[i]), g.t.ptrSlice)
					}
				}
			}
		case len(x.Rhs) == 1:
			// tuple-valued right-hand side: a call, or `v, ok := m[k]`
			for _, l := range x.Lhs {
				if id, ok := l.(*ast.Ident); ok && g.tracked[id.Name] {
					g.fail(s, "tracked pointer %s assigned from a multi-value expression", id.Name)
				}
			}
			var rhs string
			if ie, ok := x.Rhs[0].(*ast.IndexExpr); ok && len(x.Lhs) == 2 {
				rhs = "(GoLite.Map.lookup " + g.expr(ie.X) + " " + g.expr(ie.Index) + ")"
			} else if ta, ok := x.Rhs[0].(*ast.TypeAssertExpr); ok && len(x.Lhs) == 2 && ta.Type != nil {
				// v, ok := x.(T), the CHECKED assertion: a function of the target (callSubst "assert:<Lean type>")
				// returning (value, ok); the one-value form panics in Go and stays outside the subset
				f, ok := g.t.callSubst["assert:"+g2lType(g, ta.Type)]
				if !ok {
					g.fail(s, "type assertion to %s without a callSubst \"assert:%s\"", exprText(ta.Type), g2lType(g, ta.Type))
				}
				rhs = "(" + f + " " + g.expr(ta.X) + ")"
			} else {
				rhs = g.expr(x.Rhs[0])
			}
			if !define {
				// re-assignment of existing variables / fields through fresh names
				var tmp []string
				for i := range x.Lhs {
					tmp = append(tmp, fmt.Sprintf("t%d'", i))
				}
				o.line(ind, "let ("+strings.Join(tmp, ", ")+") := "+rhs)
				for i, l := range x.Lhs {
					if id, ok := l.(*ast.Ident); ok && id.Name == "_" {
						continue
					}
					g.assignTo(o, ind, l, tmp[i], false, s)
				}
				return
			}
			var names []string
			for _, l := range x.Lhs {
				id, ok := l.(*ast.Ident)
				if !ok {
					g.fail(s, "tuple assignment to %s", exprText(l))
				}
				names = append(names, g2lIdent(id.Name))
			}
			redecl := false
			if define {
				for _, l := range x.Lhs {
					g.shadowOK(l.(*ast.Ident))
				}
			}
			for _, l := range x.Lhs {
				if id := l.(*ast.Ident); id.Name != "_" && g.declared[id.Name] {
					redecl = true
				}
			}
			kw := "let mut "
			if define && redecl {
				// some of the names exist already: bind the tuple to fresh names, then declare / assign
				var tmp []string
				for i := range names {
					tmp = append(tmp, fmt.Sprintf("t%d'", i))
				}
				o.line(ind, "let ("+strings.Join(tmp, ", ")+") := "+rhs)
				for i, l := range x.Lhs {
					id := l.(*ast.Ident)
					switch {
					case id.Name == "_":
					case g.declared[id.Name]:
						o.line(ind, names[i]+" := "+tmp[i])
					default:
						g.declared[id.Name] = true
						o.line(ind, "let mut "+names[i]+" := "+tmp[i])
					}
				}
				return
			}
			if define {
				for _, l := range x.Lhs {
					g.declared[l.(*ast.Ident).Name] = true
				}
			}
			if !define {
				// re-assignment of existing variables through fresh names
				var tmp []string
				for i := range names {
					tmp = append(tmp, fmt.Sprintf("t%d'", i))
				}
				o.line(ind, "let ("+strings.Join(tmp, ", ")+") := "+rhs)
				for i, n := range names {
					if n != "_" {
						o.line(ind, n+" := "+tmp[i])
					}
				}
				return
			}
			o.line(ind, kw+"("+strings.Join(names, ", ")+") := "+rhs)
		default:
			g.fail(s, "unsupported assignment")
		}
	case *ast.IncDecStmt:
		op := "+"
		if x.Tok == token.DEC {
			op = "-"
		}
		g.assignTo(o, ind, x.X, "("+g.expr(x.X)+" "+op+" (1 : Int))", false, s)
	case *ast.IfStmt:
		g.ifStmt(o, ind, x, "if ")
	case *ast.RangeStmt:
		g.rangeStmt(o, ind, x)
	case *ast.ForStmt:
		g.forStmt(o, ind, x)
	case *ast.ReturnStmt:
		// `return f(..)` handing on all results of a call
		if len(x.Results) == 1 && len(g.t.retOpt) > 1 && len(g.t.captures) == 0 {
			if c, ok := x.Results[0].(*ast.CallExpr); ok {
				o.line(ind, "return "+g.call(c))
				return
			}
		}
		if len(x.Results) == 0 && len(g.named) == len(g.t.retOpt) && len(g.named) > 0 && len(g.t.captures) == 0 {
			// bare return of named results
			var vs []string
			for _, n := range g.named {
				vs = append(vs, g2lIdent(n))
			}
			if len(vs) == 1 {
				o.line(ind, "return "+vs[0])
			} else {
				o.line(ind, "return ("+strings.Join(vs, ", ")+")")
			}
			return
		}
		if len(x.Results) != len(g.t.retOpt) {
			g.fail(s, "return with %d values, %d expected", len(x.Results), len(g.t.retOpt))
		}
		var vs []string
		if len(x.Results) == 1 && g.outArg(x.Results[0]) != nil {
			// return f(a, p) where f assigns through p: p gets its new value, the result of f is handed on
			c := x.Results[0].(*ast.CallExpr)
			out := g.outArg(x.Results[0])
			if g.t.outArgsLast {
				o.line(ind, "let (r', o') := "+g.call(c))
			} else {
				o.line(ind, "let (o', r') := "+g.call(c))
			}
			g.assignTo(o, ind, out, "o'", false, s)
			vs = append(vs, "r'")
			x = &ast.ReturnStmt{Return: x.Return}
		}
		for i, r := range x.Results {
			v := g.expr(r)
			if g.t.retOpt[i] && !isNil(r) && !g.isOpt(r) && !g2lOptionCall(r) {
				v = "(some " + v + ")"
			}
			if !g.t.retOpt[i] && isNil(r) {
				v = "default" // nil slice / map
			}
			vs = append(vs, v)
		}
		for _, c := range g.t.captures {
			vs = append(vs, g2lIdent(c))
		}
		for _, p := range g.t.sharedMaps {
			vs = append(vs, g2lGhost(p)+"_caller")
		}
		if len(vs) == 1 {
			o.line(ind, "return "+vs[0])
		} else {
			o.line(ind, "return ("+strings.Join(vs, ", ")+")")
		}
	case *ast.BranchStmt:
		switch x.Tok {
		case token.CONTINUE:
			o.line(ind, "continue")
		case token.BREAK:
			o.line(ind, "break")
		default:
			g.fail(s, "branch %s", x.Tok)
		}
		if x.Label != nil {
			g.fail(s, "labelled branch")
		}
	case *ast.SwitchStmt:
		g.switchStmt(o, ind, x)
	case *ast.TypeSwitchStmt:
		g.typeSwitchStmt(o, ind, x)
	case *ast.BlockStmt:
		g.block(o, ind, x.List)
	case *ast.ExprStmt:
		if c, ok := x.X.(*ast.CallExpr); ok && callName(c) == "delete" && len(c.Args) == 2 {
			// delete(m, k) on a map this function owns
			id, isId := c.Args[0].(*ast.Ident)
			if !isId {
				g.fail(s, "delete on %s", exprText(c.Args[0]))
			}
			if !g.owned[id.Name] {
				g.fail(s, "delete through %s, which was not created in this function (it may alias memory other code sees)", id.Name)
			}
			r := g2lIdent(id.Name)
			o.line(ind, fmt.Sprintf("%s := GoLite.Map.erase %s %s", r, r, g.expr(c.Args[1])))
			return
		}
		if c, ok := x.X.(*ast.CallExpr); ok {
			// x.Add(v) on a set-like value: handled through callSubst "recv.Method!" entries
			f, ok := g.t.callSubst[callName(c)+"!"]
			if sel, isSel := c.Fun.(*ast.SelectorExpr); !ok && isSel {
				// "*.Method!": the same for whatever the receiver variable is called
				f, ok = g.t.callSubst["*."+sel.Sel.Name+"!"]
			}
			if ok {
				sel := c.Fun.(*ast.SelectorExpr)
				r := g.expr(sel.X)
				var a []string
				for _, e := range c.Args {
					a = append(a, g.expr(e))
				}
				o.line(ind, r+" := "+f+" "+r+" "+strings.Join(a, " "))
				return
			}
		}
		g.fail(s, "statement with an effect the translator does not know: %s", exprText(x.X))
	default:
		g.fail(s, "unsupported statement %T", s)
	}
}

func (g *g2l) ifStmt(o *g2lOut, ind int, x *ast.IfStmt, kw string) {
	if x.Init != nil {
		if kw != "if " {
			g.fail(x, "else-if with an init statement")
		}
		g.stmt(o, ind, x.Init)
	}
	o.line(ind, kw+g.expr(x.Cond)+" then")
	g.block(o, ind+1, x.Body.List)
	switch e := x.Else.(type) {
	case nil:
	case *ast.IfStmt:
		if e.Init != nil {
			o.line(ind, "else")
			g.ifStmt(o, ind+1, e, "if ")
		} else {
			g.ifStmt(o, ind, e, "else if ")
		}
	case *ast.BlockStmt:
		o.line(ind, "else")
		g.block(o, ind+1, e.List)
	}
}

func (g *g2l) rangeStmt(o *g2lOut, ind int, x *ast.RangeStmt) {
	name := func(e ast.Expr) string {
		if e == nil {
			return "_"
		}
		id, ok := e.(*ast.Ident)
		if !ok {
			g.fail(x, "range variable %s", exprText(e))
		}
		return g2lIdent(id.Name)
	}
	k, v := name(x.Key), name(x.Value)
	coll := g.expr(x.X)
	isMap := g.t.subst["range:"+exprText(x.X)] == "map"
	if id, ok := x.X.(*ast.Ident); ok && g.isMapVar(id.Name) {
		isMap = true
	}
	// a range variable that the body assigns to (`x.F = v`, `x = v`): Lean's loop variables are
	// immutable, so the loop binds `<name>_it` and the body starts with a mutable copy
	rebind := ""
	if v != "_" && assignsTo(x.Body, exprText(x.Value)) {
		rebind = v
		v = g2lIdent(exprText(x.Value) + "_it")
	}
	if g.t.ptrSlice != "" && exprText(x.X) == g.t.ptrSlice && k == "_" && v != "_" {
		// the elements of the pointer slice are handed out together with their position
		k = g2lIdent(exprText(x.Value) + "_at")
		g.rangeS[exprText(x.Value)] = true
		defer delete(g.rangeS, exprText(x.Value))
	}
	switch {
	case isMap:
		o.line(ind, fmt.Sprintf("for (%s, %s) in %s do", k, v, coll))
	case k == "_":
		o.line(ind, fmt.Sprintf("for %s in %s do", v, coll))
	default:
		o.line(ind, fmt.Sprintf("for (%s, %s) in GoLite.enum %s do", k, v, coll))
	}
	if rebind != "" {
		if g.t.rangeCopies {
			g.owned[exprText(x.Value)] = true
		}
		o.line(ind+1, "let mut "+rebind+" := "+v)
	}
	g.inLoop++
	g.block(o, ind+1, x.Body.List)
	g.inLoop--
}

// assignsTo reports whether the block assigns to the variable `name` or to one of its fields.
func assignsTo(body *ast.BlockStmt, name string) bool {
	found := false
	root := func(e ast.Expr) string {
		for {
			switch x := e.(type) {
			case *ast.SelectorExpr:
				e = x.X
			case *ast.IndexExpr:
				e = x.X
			case *ast.StarExpr:
				e = x.X
			case *ast.Ident:
				return x.Name
			default:
				return ""
			}
		}
	}
	ast.Inspect(body, func(n ast.Node) bool {
		switch x := n.(type) {
		case *ast.AssignStmt:
			if x.Tok != token.DEFINE {
				for _, l := range x.Lhs {
					if root(l) == name {
						found = true
					}
				}
			}
		case *ast.IncDecStmt:
			if root(x.X) == name {
				found = true
			}
		}
		return true
	})
	return found
}

func (g *g2l) forStmt(o *g2lOut, ind int, x *ast.ForStmt) {
	init, ok := x.Init.(*ast.AssignStmt)
	if !ok || init.Tok != token.DEFINE || len(init.Lhs) != 1 {
		g.fail(x, "for loop without `i := e` init")
	}
	i := init.Lhs[0].(*ast.Ident).Name
	cond, ok := x.Cond.(*ast.BinaryExpr)
	if !ok || exprText(cond.X) != i {
		g.fail(x, "for loop condition %s", exprText(x.Cond))
	}
	post, ok := x.Post.(*ast.IncDecStmt)
	if !ok || exprText(post.X) != i {
		g.fail(x, "for loop post statement")
	}
	switch {
	case cond.Op == token.GEQ && post.Tok == token.DEC:
		o.line(ind, fmt.Sprintf("for %s in GoLite.downTo %s %s do", g2lIdent(i), g.expr(init.Rhs[0]), g.expr(cond.Y)))
	case cond.Op == token.LSS && post.Tok == token.INC:
		o.line(ind, fmt.Sprintf("for %s in GoLite.upTo %s %s do", g2lIdent(i), g.expr(init.Rhs[0]), g.expr(cond.Y)))
	default:
		g.fail(x, "for loop shape (%s, %s)", cond.Op, post.Tok)
	}
	// the loop variable must not be assigned in the body
	ast.Inspect(x.Body, func(n ast.Node) bool {
		if as, ok := n.(*ast.AssignStmt); ok {
			for _, l := range as.Lhs {
				if exprText(l) == i {
					g.fail(as, "loop variable %s assigned in the body", i)
				}
			}
		}
		if id, ok := n.(*ast.IncDecStmt); ok && exprText(id.X) == i {
			g.fail(id, "loop variable %s changed in the body", i)
		}
		return true
	})
	g.inLoop++
	g.block(o, ind+1, x.Body.List)
	g.inLoop--
}

// `switch e.(type) { case T1: .. case T2, T3: .. default: .. }` without a bound variable: an if-chain over the
// oracles the target configures per type, callSubst["typeIs:<type text>"] : <type of e> -> Bool
// (which dynamic types an interface value can have is not visible in the syntax)
func (g *g2l) typeSwitchStmt(o *g2lOut, ind int, x *ast.TypeSwitchStmt) {
	if x.Init != nil {
		g.fail(x, "type switch with init")
	}
	es, ok := x.Assign.(*ast.ExprStmt)
	if !ok {
		g.fail(x, "type switch that binds a variable")
	}
	ta, ok := es.X.(*ast.TypeAssertExpr)
	if !ok || ta.Type != nil {
		g.fail(x, "type switch of an unexpected form")
	}
	subject := g.expr(ta.X)
	first := true
	var def *ast.CaseClause
	for _, c := range x.Body.List {
		cc := c.(*ast.CaseClause)
		if cc.List == nil {
			def = cc
			continue
		}
		var cs []string
		for _, e := range cc.List {
			f, known := g.t.callSubst["typeIs:"+exprText(e)]
			if !known {
				g.fail(e, "type switch case %s: no callSubst entry typeIs:%s", exprText(e), exprText(e))
			}
			cs = append(cs, "("+f+" "+subject+")")
		}
		kw := "else if "
		if first {
			kw = "if "
			first = false
		}
		o.line(ind, kw+strings.Join(cs, " || ")+" then")
		g.block(o, ind+1, cc.Body)
	}
	if def != nil {
		if first {
			g.block(o, ind, def.Body)
			return
		}
		o.line(ind, "else")
		g.block(o, ind+1, def.Body)
	}
}

func (g *g2l) switchStmt(o *g2lOut, ind int, x *ast.SwitchStmt) {
	if x.Init != nil {
		g.fail(x, "switch with init")
	}
	first := true
	var def *ast.CaseClause
	for _, c := range x.Body.List {
		cc := c.(*ast.CaseClause)
		for _, s := range cc.Body {
			if b, ok := s.(*ast.BranchStmt); ok && b.Tok == token.FALLTHROUGH {
				g.fail(b, "fallthrough")
			}
		}
		if cc.List == nil {
			def = cc
			continue
		}
		var cs []string
		for _, e := range cc.List {
			if x.Tag == nil {
				cs = append(cs, g.expr(e))
			} else {
				cs = append(cs, "("+g.expr(x.Tag)+" == "+g.expr(e)+")")
			}
		}
		kw := "else if "
		if first {
			kw = "if "
			first = false
		}
		o.line(ind, kw+strings.Join(cs, " || ")+" then")
		g.block(o, ind+1, cc.Body)
	}
	if def != nil {
		if first {
			g.block(o, ind, def.Body)
			return
		}
		o.line(ind, "else")
		g.block(o, ind+1, def.Body)
	}
}

// ---- pointers stored in containers ----

// g2lRootIdent: the identifier at the root of x.F.G[k]..., or nil
func g2lRootIdent(e ast.Expr) *ast.Ident {
	for {
		switch x := e.(type) {
		case *ast.SelectorExpr:
			e = x.X
		case *ast.IndexExpr:
			e = x.X
		case *ast.StarExpr:
			e = x.X
		case *ast.ParenExpr:
			e = x.X
		case *ast.Ident:
			return x
		default:
			return nil
		}
	}
}

// g2lPointerPrePass guards the value-semantics translation against pointer aliasing inside the function: a local
// that is STORED somewhere as a bare identifier (appended to a slice, assigned to another variable / field / map
// entry, put into a composite literal, `&x`) and UPDATED IN PLACE afterwards (`x.F = v`, `x[k] = v`, delete(x, k)),
// or anywhere in a loop both sit in, would in Go be seen through the stored copy when it is a pointer, a map or a
// slice - the translation would lose that. Such a function is refused, except for the one pattern ptrSlice
// describes, whose locals are returned as the set of tracked variables.
func g2lPointerPrePass(g *g2l, body []ast.Stmt) map[string]bool {
	type site struct {
		pos   token.Pos
		intoS bool // stored by `S = append(S, x)` with S the ptrSlice
	}
	updates := map[string][]token.Pos{}
	stores := map[string][]site{}
	fromS := map[string]bool{} // assigned from the value variable of a `range S`
	S := g.t.ptrSlice
	var loops []ast.Node
	isCaptured := func(name string) bool {
		for _, c := range g.t.captures {
			if c == name {
				return true
			}
		}
		return false
	}
	store := func(e ast.Expr, intoS bool) {
		if ue, ok := e.(*ast.UnaryExpr); ok && ue.Op == token.AND {
			e = ue.X
		}
		if id, ok := e.(*ast.Ident); ok && id.Name != "nil" && id.Name != "_" {
			stores[id.Name] = append(stores[id.Name], site{e.Pos(), intoS})
		}
	}
	var rangeVars []string // value variables of the enclosing `range S` loops
	var walk func(n ast.Node) bool
	walk = func(n ast.Node) bool {
		switch x := n.(type) {
		case *ast.FuncLit:
			return false
		case *ast.RangeStmt:
			loops = append(loops, x)
			pushed := false
			if S != "" && exprText(x.X) == S {
				if id, ok := x.Value.(*ast.Ident); ok {
					rangeVars = append(rangeVars, id.Name)
					pushed = true
				}
			}
			ast.Inspect(x.Body, walk)
			if pushed {
				rangeVars = rangeVars[:len(rangeVars)-1]
			}
			return false
		case *ast.ForStmt:
			loops = append(loops, x)
		case *ast.AssignStmt:
			for i, l := range x.Lhs {
				if _, isId := l.(*ast.Ident); !isId {
					if r := g2lRootIdent(l); r != nil && x.Tok != token.DEFINE {
						updates[r.Name] = append(updates[r.Name], l.Pos())
					}
				}
				if len(x.Lhs) != len(x.Rhs) {
					continue
				}
				r := x.Rhs[i]
				if lid, ok := l.(*ast.Ident); ok && lid.Name == "_" {
					continue
				}
				if c, ok := r.(*ast.CallExpr); ok && callName(c) == "append" && len(c.Args) >= 1 {
					into := S != "" && exprText(l) == S && exprText(c.Args[0]) == S
					if c.Ellipsis == token.NoPos {
						for _, a := range c.Args[1:] {
							store(a, into)
						}
					}
					continue
				}
				if rid, ok := r.(*ast.Ident); ok {
					if lid, ok := l.(*ast.Ident); ok {
						isRange := false
						for _, rv := range rangeVars {
							if rv == rid.Name {
								isRange = true
							}
						}
						if isRange {
							fromS[lid.Name] = true
							continue
						}
					}
				}
				store(r, false)
			}
		case *ast.CompositeLit:
			for _, el := range x.Elts {
				if kv, ok := el.(*ast.KeyValueExpr); ok {
					store(kv.Value, false)
				} else {
					store(el, false)
				}
			}
		case *ast.CallExpr:
			if callName(x) == "delete" && len(x.Args) == 2 {
				if r := g2lRootIdent(x.Args[0]); r != nil {
					updates[r.Name] = append(updates[r.Name], x.Pos())
				}
			}
		}
		return true
	}
	for _, st := range body {
		ast.Inspect(st, walk)
	}
	declaredIn := func(loop ast.Node, name string) bool {
		found := false
		ast.Inspect(loop, func(n ast.Node) bool {
			switch x := n.(type) {
			case *ast.AssignStmt:
				if x.Tok == token.DEFINE {
					for _, l := range x.Lhs {
						if id, ok := l.(*ast.Ident); ok && id.Name == name {
							found = true
						}
					}
				}
			case *ast.ValueSpec:
				for _, id := range x.Names {
					if id.Name == name {
						found = true
					}
				}
			case *ast.RangeStmt:
				if id, ok := x.Value.(*ast.Ident); ok && id.Name == name {
					found = true
				}
			}
			return true
		})
		return found
	}
	tracked := map[string]bool{}
	var names []string
	for x := range updates {
		names = append(names, x)
	}
	sort.Strings(names)
	for _, x := range names {
		if S != "" && fromS[x] {
			tracked[x] = true
		}
		nS := 0
		for _, st := range stores[x] {
			for _, up := range updates[x] {
				bad := up > st.pos
				for _, lp := range loops {
					if lp.Pos() <= st.pos && st.pos < lp.End() && lp.Pos() <= up && up < lp.End() && !declaredIn(lp, x) {
						bad = true
						if st.intoS {
							g.fail(lp, "%s is appended to %s inside a loop and updated in place there", x, S)
						}
					}
				}
				if !bad {
					continue
				}
				if st.intoS {
					tracked[x] = true
					continue
				}
				if isCaptured(x) {
					continue // a capture is handed back to the caller: the target's business
				}
				g.fail(body[0], "%s is stored at line %d and updated in place at line %d: if it is a pointer, a map or a slice the stored copy sees the update in Go but not in a value-semantics translation",
					x, fset.Position(st.pos).Line, fset.Position(up).Line)
			}
			if st.intoS {
				nS++
			}
		}
		if tracked[x] && nS > 1 {
			g.fail(body[0], "%s is appended to %s more than once", x, S)
		}
	}
	return tracked
}

// translate renders one target as a Lean definition.
func g2lTranslate(t *g2lTarget) string {
	f := parseFile(t.file)
	fd := mustFunc(f, t.file, t.recv, t.fn)
	if t.recvName != "" && fd.Recv != nil && len(fd.Recv.List) == 1 && len(fd.Recv.List[0].Names) == 1 {
		if rid := fd.Recv.List[0].Names[0]; rid.Name != t.recvName && rid.Obj != nil {
			obj := rid.Obj
			ast.Inspect(fd, func(n ast.Node) bool {
				if id, ok := n.(*ast.Ident); ok && id.Obj == obj {
					id.Name = t.recvName
				}
				return true
			})
		}
	}
	g := &g2l{t: t, opt: map[string]bool{}, pkgs: map[string]bool{}, owned: map[string]bool{}, declared: map[string]bool{}, shared: map[string]bool{}, valueRoots: map[string]bool{}}
	for _, im := range f.Imports {
		p, _ := strconv.Unquote(im.Path.Value)
		n := p[strings.LastIndex(p, "/")+1:]
		if im.Name != nil {
			n = im.Name.Name
		}
		g.pkgs[n] = true
	}
	for _, v := range t.optVars {
		g.opt[v] = true
	}
	// an identifier that is compared with nil somewhere in the body holds a nil-able value
	// (so that renaming `err` does not need a new target description)
	ast.Inspect(fd.Body, func(n ast.Node) bool {
		if be, ok := n.(*ast.BinaryExpr); ok && (be.Op == token.EQL || be.Op == token.NEQ) {
			if id, ok := be.X.(*ast.Ident); ok && isNil(be.Y) {
				g.opt[id.Name] = true
			}
			if id, ok := be.Y.(*ast.Ident); ok && isNil(be.X) {
				g.opt[id.Name] = true
			}
		}
		return true
	})
	// the last variable of a multi-value `.., x := f(..)` that is handed back in a nil-able result position holds
	// a nil-able value (Go's `v, err := f(); return v, err`), whatever it is called
	if t.closureOf == "" {
		lastOfCall := map[string]bool{}
		ast.Inspect(fd.Body, func(n ast.Node) bool {
			if _, ok := n.(*ast.FuncLit); ok {
				return false
			}
			if as, ok := n.(*ast.AssignStmt); ok && as.Tok == token.DEFINE && len(as.Lhs) >= 2 && len(as.Rhs) == 1 {
				if _, isCall := as.Rhs[0].(*ast.CallExpr); isCall {
					if id, ok := as.Lhs[len(as.Lhs)-1].(*ast.Ident); ok && id.Name != "_" {
						lastOfCall[id.Name] = true
					}
				}
			}
			return true
		})
		ast.Inspect(fd.Body, func(n ast.Node) bool {
			if _, ok := n.(*ast.FuncLit); ok {
				return false
			}
			if rs, ok := n.(*ast.ReturnStmt); ok && len(rs.Results) == len(t.retOpt) {
				for i, r := range rs.Results {
					if id, ok := r.(*ast.Ident); ok && t.retOpt[i] && lastOfCall[id.Name] {
						g.opt[id.Name] = true
					}
				}
			}
			return true
		})
	}
	for _, v := range t.ownedVars {
		g.owned[v] = true
	}
	// identifiers that hold maps are read off the syntax: parameters of map type, `x := make(map..)`,
	// `x := map[..]..{..}`, `var x map[..]..` (mapVars of the target adds what cannot be seen)
	if g2lParams := g2lParamList(f, t); g2lParams != nil {
		for _, p := range g2lParams.List {
			if _, ok := p.Type.(*ast.MapType); ok {
				for _, n := range p.Names {
					t.mapVars = append(t.mapVars, n.Name)
				}
			}
		}
	}
	if fdm := findFunc(f, t.recv, t.fn); fdm != nil && fdm.Body != nil {
		ast.Inspect(fdm.Body, func(n ast.Node) bool {
			switch x := n.(type) {
			case *ast.AssignStmt:
				if x.Tok == token.DEFINE && len(x.Lhs) == len(x.Rhs) {
					for i, r := range x.Rhs {
						id, ok := x.Lhs[i].(*ast.Ident)
						if !ok {
							continue
						}
						if c, ok := r.(*ast.CallExpr); ok && callName(c) == "make" && len(c.Args) > 0 {
							if _, ok := c.Args[0].(*ast.MapType); ok {
								t.mapVars = append(t.mapVars, id.Name)
							}
						}
						if cl, ok := r.(*ast.CompositeLit); ok {
							if _, ok := cl.Type.(*ast.MapType); ok {
								t.mapVars = append(t.mapVars, id.Name)
							}
						}
					}
				}
			case *ast.ValueSpec:
				if _, ok := x.Type.(*ast.MapType); ok {
					for _, n := range x.Names {
						t.mapVars = append(t.mapVars, n.Name)
					}
				}
			}
			return true
		})
	}
	// locals that only hold a logger: calls on them are dropped like the calls that made them
	g.drop = append([]string{}, t.dropCalls...)
	ast.Inspect(fd.Body, func(n ast.Node) bool {
		if s, ok := n.(ast.Stmt); ok {
			if v, ok := g.loggerDecl(s); ok {
				g.drop = append(g.drop, v+".")
			}
		}
		return true
	})
	// locals shadowing a package name are locals
	ast.Inspect(fd.Body, func(n ast.Node) bool {
		if as, ok := n.(*ast.AssignStmt); ok && as.Tok == token.DEFINE {
			for _, l := range as.Lhs {
				if id, ok := l.(*ast.Ident); ok {
					delete(g.pkgs, id.Name)
				}
			}
		}
		return true
	})
	body := fd.Body.List
	ftype := fd.Type
	what := t.fn
	if t.closureOf != "" {
		var lit *ast.FuncLit
		ast.Inspect(fd.Body, func(n ast.Node) bool {
			// closureOf "return": the function literal the function returns (a constructor of a closure)
			if r, ok := n.(*ast.ReturnStmt); ok && t.closureOf == "return" {
				for _, a := range r.Results {
					if fl, ok := a.(*ast.FuncLit); ok {
						lit = fl
					}
				}
			}
			if c, ok := n.(*ast.CallExpr); ok && g2lCallMatches(c, t.closureOf) {
				for _, a := range c.Args {
					if fl, ok := a.(*ast.FuncLit); ok {
						lit = fl
					}
				}
			}
			return true
		})
		if lit == nil {
			fail("go2lean %s.%s: no function literal passed to %s", t.recv, t.fn, t.closureOf)
		}
		body, ftype = lit.Body.List, lit.Type
		what = t.fn + " (function literal passed to " + t.closureOf + ")"
	}
	if t.after != "" {
		at := -1
		for i, st := range fd.Body.List {
			found := false
			ast.Inspect(st, func(n ast.Node) bool {
				if c, ok := n.(*ast.CallExpr); ok && g2lCallMatches(c, t.after) {
					found = true
				}
				return true
			})
			if found {
				at = i
			}
		}
		if at < 0 {
			fail("go2lean %s.%s: no top-level statement calls %s", t.recv, t.fn, t.after)
		}
		body = fd.Body.List[at+1:]
		what = t.fn + " (statements after the call of " + t.after + ")"
	}
	if len(t.outer) > 0 {
		g2lRenameOuter(t, fd, body)
	}
	for fresh, orig := range g2lRenameShadows(fd, body) {
		// a renamed variable keeps what the configuration says about its name
		if g.opt[orig] {
			g.opt[fresh] = true
		}
	}
	g.part = body
	for _, c := range t.captures {
		g.owned[c] = true
		g.declared[c] = true
	}
	g.tracked = g2lPointerPrePass(g, body)
	g.rangeS = map[string]bool{}
	nres := 0
	if ftype.Results != nil {
		for _, r := range ftype.Results.List {
			if len(r.Names) == 0 {
				nres++
			} else {
				// named results: mutable locals starting at the zero value; a bare `return` hands them back
				for _, n := range r.Names {
					g.named = append(g.named, n.Name)
					g.namedTypes = append(g.namedTypes, r.Type)
				}
				nres += len(r.Names)
			}
		}
	}
	if nres != len(t.retOpt) {
		fail("go2lean %s.%s: %d results in the source, %d configured", t.recv, t.fn, nres, len(t.retOpt))
	}
	var o g2lOut
	pos := fset.Position(fd.Pos())
	o.line(0, fmt.Sprintf("/-- translated from `%s` (%s), %d statements -/", what, t.file, len(body)))
	_ = pos
	o.line(0, fmt.Sprintf("def %s %s : %s := Id.run do", t.leanName, t.params, t.ret))
	for _, c := range t.captures {
		o.line(1, "let mut "+g2lIdent(c)+" := "+g2lIdent(c))
	}
	for _, c := range t.mutParams {
		if !g.declared[c] {
			g.declared[c] = true
			o.line(1, "let mut "+g2lIdent(c)+" := "+g2lIdent(c))
		}
	}
	{
		var tr []string
		for x := range g.tracked {
			tr = append(tr, x)
		}
		sort.Strings(tr)
		for _, x := range tr {
			o.line(1, "let mut "+g2lIdent(x+"_at")+" : Int := -1")
		}
	}
	if t.closureOf == "" && t.after == "" && fd.Type.Params != nil {
		// a parameter the body assigns to is a mutable local, as in Go (captures are that already)
		assigned := map[string]bool{}
		ast.Inspect(fd.Body, func(n ast.Node) bool {
			switch x := n.(type) {
			case *ast.FuncLit:
				return false
			case *ast.AssignStmt:
				if x.Tok != token.DEFINE {
					for _, l := range x.Lhs {
						if id, ok := l.(*ast.Ident); ok {
							assigned[id.Name] = true
						}
					}
				}
			case *ast.IncDecStmt:
				if id, ok := x.X.(*ast.Ident); ok {
					assigned[id.Name] = true
				}
			}
			return true
		})
		for _, f := range fd.Type.Params.List {
			for _, n := range f.Names {
				if assigned[n.Name] && !g.declared[n.Name] {
					g.declared[n.Name] = true
					o.line(1, "let mut "+g2lIdent(n.Name)+" := "+g2lIdent(n.Name))
				}
			}
		}
	}
	for _, p := range t.sharedMaps {
		root := p
		if i := strings.Index(p, "."); i >= 0 {
			root = p[:i]
			if strings.Contains(p[i+1:], ".") {
				fail("go2lean %s.%s: shared map %s: only p or p.F", t.recv, t.fn, p)
			}
			g.valueRoots[root] = true
		}
		if !g.declared[root] {
			g.declared[root] = true
			o.line(1, "let mut "+g2lIdent(root)+" := "+g2lIdent(root))
		}
		g.shared[p] = true
		o.line(1, "let mut "+g2lGhost(p)+"_caller := "+p)
		o.line(1, "let mut "+g2lGhost(p)+"_aliased := true")
	}
	for i, n := range g.named {
		g.declared[n] = true
		g.owned[n] = true
		ty := g2lType(g, g.namedTypes[i])
		if i < len(t.retOpt) && t.retOpt[i] {
			g.opt[n] = true
			if !strings.HasPrefix(ty, "(Option") {
				ty = "(Option " + ty + ")"
			}
			o.line(1, "let mut "+g2lIdent(n)+" : "+ty+" := none")
		} else {
			o.line(1, "let mut "+g2lIdent(n)+" : "+ty+" := default")
		}
	}
	g.block(&o, 1, body)
	// a body that can fall off its end (no results) needs nothing; one with results always ends in return
	return o.b.String()
}

// g2lDecls translates package-level constants and variables (basic literals, composite
// literals, references to each other) into Lean definitions, in the order given.
func g2lDecls(file string, names []string) string {
	f := parseFile(file)
	t := &g2lTarget{file: file, fn: "(package-level declarations)"}
	g := &g2l{t: t, opt: map[string]bool{}, pkgs: map[string]bool{}, owned: map[string]bool{}, declared: map[string]bool{}, shared: map[string]bool{}, valueRoots: map[string]bool{}}
	for _, im := range f.Imports {
		p, _ := strconv.Unquote(im.Path.Value)
		n := p[strings.LastIndex(p, "/")+1:]
		if im.Name != nil {
			n = im.Name.Name
		}
		g.pkgs[n] = true
	}
	var b strings.Builder
	for _, name := range names {
		var spec *ast.ValueSpec
		var idx int
		for _, d := range f.Decls {
			gd, ok := d.(*ast.GenDecl)
			if !ok || (gd.Tok != token.VAR && gd.Tok != token.CONST) {
				continue
			}
			for _, sp := range gd.Specs {
				vs := sp.(*ast.ValueSpec)
				for i, n := range vs.Names {
					if n.Name == name {
						spec, idx = vs, i
					}
				}
			}
		}
		if spec == nil || idx >= len(spec.Values) {
			fail("go2lean %s: package-level %s not found (or declared without a value)", file, name)
		}
		v := spec.Values[idx]
		ty := ""
		if spec.Type != nil {
			ty = g2lType(g, spec.Type)
		} else if cl, ok := v.(*ast.CompositeLit); ok {
			ty = g2lType(g, cl.Type)
		} else if ue, ok := v.(*ast.UnaryExpr); ok && ue.Op == token.AND {
			if cl, ok := ue.X.(*ast.CompositeLit); ok {
				ty = g2lType(g, cl.Type)
			}
		} else if bl, ok := v.(*ast.BasicLit); ok {
			switch bl.Kind {
			case token.STRING:
				ty = "String"
			case token.INT:
				ty = "Int"
			}
		}
		if ty == "" {
			fail("go2lean %s: cannot tell the type of %s", file, name)
		}
		fmt.Fprintf(&b, "/-- `%s` (%s) -/\ndef %s : %s := %s\n\n", name, file, g2lIdent(name), ty, g.expr(v))
	}
	return b.String()
}

// g2lParamList: the parameter list of the target's function declaration (nil if it has none)
func g2lParamList(f *ast.File, t *g2lTarget) *ast.FieldList {
	fd := findFunc(f, t.recv, t.fn)
	if fd == nil {
		return nil
	}
	return fd.Type.Params
}

// g2lCallMatches: callee pattern "recv.Method", or "*.Method" for whatever the receiver is called
func g2lCallMatches(c *ast.CallExpr, pat string) bool {
	if strings.HasPrefix(pat, "*.") {
		sel, ok := c.Fun.(*ast.SelectorExpr)
		return ok && sel.Sel.Name == pat[2:]
	}
	return callName(c) == pat
}

// g2lRenameOuter renames, inside the part, the variables of the enclosing function (found by their
// declaration position) to the names the target's configuration uses (t.outer).
func g2lRenameOuter(t *g2lTarget, fd *ast.FuncDecl, part []ast.Stmt) {
	if len(part) == 0 {
		return
	}
	partPos, partEnd := part[0].Pos(), part[len(part)-1].End()
	inPart := func(n ast.Node) bool { return n.Pos() >= partPos && n.End() <= partEnd }
	// declaration order of the enclosing function's variables: parameters, then locals declared outside the part
	var decl []string
	seen := map[string]bool{}
	add := func(id *ast.Ident) {
		if id.Name != "_" && !seen[id.Name] {
			seen[id.Name] = true
			decl = append(decl, id.Name)
		}
	}
	for _, f := range fd.Type.Params.List {
		for _, n := range f.Names {
			add(n)
		}
	}
	// only TOP-LEVEL declarations of the enclosing body: nested ones are scoped to their blocks
	for _, st := range fd.Body.List {
		if inPart(st) {
			continue
		}
		switch x := st.(type) {
		case *ast.AssignStmt:
			if x.Tok == token.DEFINE {
				for _, l := range x.Lhs {
					if id, ok := l.(*ast.Ident); ok {
						add(id)
					}
				}
			}
		case *ast.DeclStmt:
			if gd, ok := x.Decl.(*ast.GenDecl); ok {
				for _, sp := range gd.Specs {
					if vs, ok := sp.(*ast.ValueSpec); ok {
						for _, id := range vs.Names {
							add(id)
						}
					}
				}
			}
		}
	}
	// identifiers of the part that are not field / method / key names and not declared inside it
	skip := map[*ast.Ident]bool{}
	declaredInside := map[string]bool{}
	for _, st := range part {
		ast.Inspect(st, func(n ast.Node) bool {
			switch x := n.(type) {
			case *ast.SelectorExpr:
				skip[x.Sel] = true
			case *ast.KeyValueExpr:
				if id, ok := x.Key.(*ast.Ident); ok {
					skip[id] = true
				}
			case *ast.AssignStmt:
				if x.Tok == token.DEFINE {
					for _, l := range x.Lhs {
						if id, ok := l.(*ast.Ident); ok {
							declaredInside[id.Name] = true
						}
					}
				}
			case *ast.ValueSpec:
				for _, id := range x.Names {
					declaredInside[id.Name] = true
				}
			case *ast.RangeStmt:
				for _, e := range []ast.Expr{x.Key, x.Value} {
					if id, ok := e.(*ast.Ident); ok && x.Tok == token.DEFINE {
						declaredInside[id.Name] = true
					}
				}
			case *ast.FuncLit:
				for _, f := range x.Type.Params.List {
					for _, n := range f.Names {
						declaredInside[n.Name] = true
					}
				}
			}
			return true
		})
	}
	// closure parameters are declared inside
	used := map[string]bool{}
	var idents []*ast.Ident
	for _, st := range part {
		ast.Inspect(st, func(n ast.Node) bool {
			if id, ok := n.(*ast.Ident); ok && !skip[id] && seen[id.Name] && !declaredInside[id.Name] {
				used[id.Name] = true
				idents = append(idents, id)
			}
			return true
		})
	}
	var actual []string
	for _, d := range decl {
		if used[d] {
			actual = append(actual, d)
		}
	}
	if len(actual) != len(t.outer) {
		fail("go2lean %s.%s (%s): the part refers to %d variables of the enclosing function %v, the configuration names %d %v",
			t.recv, t.fn, t.leanName, len(actual), actual, len(t.outer), t.outer)
	}
	ren := map[string]string{}
	for i, a := range actual {
		ren[a] = t.outer[i]
	}
	for _, id := range idents {
		id.Name = ren[id.Name]
	}
}

// g2lRenameShadows makes Go's shadowing explicit before translation: a variable B declared inside
// the part that has the name of ANOTHER variable A declared earlier in the function, while A is
// still used after B's declaration, gets a fresh name (all of B's occurrences, found through the
// parser's object resolution). After this pass a name denotes one variable wherever both are live,
// so translating `x := e` of an already known name as an assignment is exact.
func g2lRenameShadows(fd *ast.FuncDecl, part []ast.Stmt) map[string]string {
	renamed := map[string]string{}
	if len(part) == 0 {
		return renamed
	}
	partPos, partEnd := part[0].Pos(), part[len(part)-1].End()
	type occ struct {
		decl token.Pos
		uses []*ast.Ident
	}
	objs := map[*ast.Object]*occ{}
	byName := map[string][]*ast.Object{}
	ast.Inspect(fd, func(n ast.Node) bool {
		id, ok := n.(*ast.Ident)
		if !ok || id.Obj == nil || id.Obj.Kind != ast.Var {
			return true
		}
		o := objs[id.Obj]
		if o == nil {
			o = &occ{decl: id.Obj.Pos()}
			objs[id.Obj] = o
			byName[id.Name] = append(byName[id.Name], id.Obj)
		}
		o.uses = append(o.uses, id)
		return true
	})
	type span struct{ pos, end token.Pos }
	var loops []span
	ast.Inspect(fd, func(n ast.Node) bool {
		switch x := n.(type) {
		case *ast.ForStmt:
			loops = append(loops, span{x.Pos(), x.End()})
		case *ast.RangeStmt:
			loops = append(loops, span{x.Pos(), x.End()})
		}
		return true
	})
	k := 0
	names := make([]string, 0, len(byName))
	for name := range byName {
		names = append(names, name)
	}
	sort.Strings(names) // deterministic fresh names
	for _, name := range names {
		list := byName[name]
		if len(list) < 2 {
			continue
		}
		for _, b := range list {
			ob := objs[b]
			if ob.decl < partPos || ob.decl > partEnd {
				continue // declared outside the part
			}
			clash := false
			for _, a := range list {
				if a == b || objs[a].decl >= ob.decl {
					continue
				}
				for _, u := range objs[a].uses {
					if u.Pos() > ob.decl {
						clash = true
					}
					// a loop around B's declaration that does not contain A's: A's uses inside it
					// come "after" B in the next iteration
					for _, l := range loops {
						if l.pos <= ob.decl && ob.decl <= l.end && !(l.pos <= objs[a].decl && objs[a].decl <= l.end) &&
							l.pos <= u.Pos() && u.Pos() <= l.end {
							clash = true
						}
					}
				}
			}
			if clash {
				k++
				fresh := fmt.Sprintf("%s_%d", name, k)
				renamed[fresh] = name
				for _, u := range ob.uses {
					u.Name = fresh
				}
			}
		}
	}
	return renamed
}

package main

import (
	"fmt"
	"go/ast"
	"go/token"
	"sort"
	"strconv"
	"strings"
)

func init() { families = append(families, family{"C09", genC09}) }

// c09LeanChars renders a Go string as a Lean `List Char` literal.
func c09LeanChars(s string) string {
	var q []string
	for _, r := range s {
		switch {
		case r == '\'':
			q = append(q, `'\''`)
		case r == '\\':
			q = append(q, `'\\'`)
		case r < 0x20 || r == 0x7f:
			q = append(q, fmt.Sprintf(`'\x%02x'`, r))
		default:
			q = append(q, "'"+string(r)+"'")
		}
	}
	return "[" + strings.Join(q, ", ") + "]"
}

// c09StrLit unquotes a string literal expression, or fails.
func c09StrLit(where string, e ast.Expr) string {
	bl, ok := e.(*ast.BasicLit)
	if !ok || bl.Kind != token.STRING {
		fail("%s: expected a string literal, found %s", where, exprText(e))
	}
	v, err := strconv.Unquote(bl.Value)
	if err != nil {
		fail("%s: %v", where, err)
	}
	return v
}

// stringSliceLit reads `[]string{"a", "b"}`.
func stringSliceLit(where string, e ast.Expr) []string {
	cl, ok := e.(*ast.CompositeLit)
	if !ok {
		fail("%s: not a composite literal", where)
	}
	var out []string
	for _, el := range cl.Elts {
		out = append(out, c09StrLit(where, el))
	}
	return out
}

// regexArgs lists the literal arguments of the regexp.MustCompile calls of a function, in source order.
func regexArgs(where string, fd *ast.FuncDecl) []string {
	var out []string
	for _, c := range callsIn(fd.Body, "regexp.MustCompile") {
		if callName(c) != "regexp.MustCompile" {
			continue
		}
		if len(c.Args) != 1 {
			fail("%s: regexp.MustCompile with %d arguments", where, len(c.Args))
		}
		out = append(out, c09StrLit(where, c.Args[0]))
	}
	return out
}

// ---- regular expressions used by a function, wherever they are defined ------------------------
//
// c09UsedRegexes follows every `<re>.MatchString(arg)` of a function back to the text given to
// regexp.MustCompile: <re> may be the MustCompile call itself, a local of the function, or a
// package-level variable of the file; the text may be a literal, a named string constant /
// variable (local or package-level) or a concatenation of those. Nothing here fails hard: what
// cannot be resolved is reported in `problems`.

type c09UsedRegex struct {
	recv string // name of the regexp variable ("" when compiled in place)
	arg  string // text of the expression that is matched
	text string // the regular expression
}

func c09PackageValues(f *ast.File) map[string]ast.Expr {
	m := map[string]ast.Expr{}
	for _, d := range f.Decls {
		gd, ok := d.(*ast.GenDecl)
		if !ok || (gd.Tok != token.VAR && gd.Tok != token.CONST) {
			continue
		}
		for _, sp := range gd.Specs {
			vs := sp.(*ast.ValueSpec)
			for i, n := range vs.Names {
				if i < len(vs.Values) {
					m[n.Name] = vs.Values[i]
				}
			}
		}
	}
	return m
}

func c09LocalValues(fd *ast.FuncDecl) map[string]ast.Expr {
	m := map[string]ast.Expr{}
	ast.Inspect(fd.Body, func(n ast.Node) bool {
		switch x := n.(type) {
		case *ast.AssignStmt:
			if len(x.Lhs) == len(x.Rhs) {
				for i, l := range x.Lhs {
					if id, ok := l.(*ast.Ident); ok {
						m[id.Name] = x.Rhs[i]
					}
				}
			}
		case *ast.ValueSpec:
			for i, n := range x.Names {
				if i < len(x.Values) {
					m[n.Name] = x.Values[i]
				}
			}
		}
		return true
	})
	return m
}

// c09EvalString evaluates a constant string expression (literals, names, +, parentheses).
func c09EvalString(e ast.Expr, local, pkg map[string]ast.Expr, depth int) (string, error) {
	if depth > 20 {
		return "", fmt.Errorf("definitions nest too deeply")
	}
	switch x := e.(type) {
	case *ast.BasicLit:
		if x.Kind != token.STRING {
			return "", fmt.Errorf("literal %s is not a string", x.Value)
		}
		return strconv.Unquote(x.Value)
	case *ast.ParenExpr:
		return c09EvalString(x.X, local, pkg, depth+1)
	case *ast.BinaryExpr:
		if x.Op != token.ADD {
			return "", fmt.Errorf("operator %s in a regular expression text", x.Op)
		}
		l, err := c09EvalString(x.X, local, pkg, depth+1)
		if err != nil {
			return "", err
		}
		r, err := c09EvalString(x.Y, local, pkg, depth+1)
		return l + r, err
	case *ast.Ident:
		if v, ok := local[x.Name]; ok {
			return c09EvalString(v, local, pkg, depth+1)
		}
		if v, ok := pkg[x.Name]; ok {
			return c09EvalString(v, nil, pkg, depth+1)
		}
		return "", fmt.Errorf("%s is not defined in this file", x.Name)
	}
	return "", fmt.Errorf("cannot evaluate %s", exprText(e))
}

func c09IsMustCompile(e ast.Expr) (*ast.CallExpr, bool) {
	c, ok := e.(*ast.CallExpr)
	if !ok || len(c.Args) != 1 {
		return nil, false
	}
	n := callName(c)
	return c, n == "regexp.MustCompile" || n == "regexp.MustCompilePOSIX"
}

func c09UsedRegexes(f *ast.File, fd *ast.FuncDecl) (used []c09UsedRegex, problems []string) {
	pkg, local := c09PackageValues(f), c09LocalValues(fd)
	ast.Inspect(fd.Body, func(n ast.Node) bool {
		c, ok := n.(*ast.CallExpr)
		if !ok || len(c.Args) != 1 {
			return true
		}
		sel, ok := c.Fun.(*ast.SelectorExpr)
		if !ok || (sel.Sel.Name != "MatchString" && sel.Sel.Name != "Match") {
			return true
		}
		u := c09UsedRegex{arg: exprText(c.Args[0])}
		var def ast.Expr = sel.X
		inLocal := true
		if id, ok := sel.X.(*ast.Ident); ok {
			u.recv = id.Name
			if v, ok := local[id.Name]; ok {
				def = v
			} else if v, ok := pkg[id.Name]; ok {
				def, inLocal = v, false
			} else {
				problems = append(problems, fmt.Sprintf("%s.%s: %s is defined neither in the function nor at package level of the file", fd.Name.Name, sel.Sel.Name, id.Name))
				return true
			}
		}
		mc, ok := c09IsMustCompile(def)
		if !ok {
			problems = append(problems, fmt.Sprintf("%s: %s is not compiled by regexp.MustCompile", fd.Name.Name, exprText(sel.X)))
			return true
		}
		loc := local
		if !inLocal {
			loc = nil
		}
		text, err := c09EvalString(mc.Args[0], loc, pkg, 0)
		if err != nil {
			problems = append(problems, fmt.Sprintf("%s: regular expression of %s: %v", fd.Name.Name, exprText(sel.X), err))
			return true
		}
		u.text = text
		used = append(used, u)
		return true
	})
	return used, problems
}

// c09ScopeRegexes tells the domain expression from the repository expression: by the name of
// the variable or of what is matched, else by order of use (domain first).
func c09ScopeRegexes(used []c09UsedRegex) (domain, repository string, ok bool) {
	has := func(u c09UsedRegex, sub string) bool {
		return strings.Contains(strings.ToLower(u.recv), sub) || strings.Contains(strings.ToLower(u.arg), sub)
	}
	di, ri := -1, -1
	for i, u := range used {
		switch {
		case di < 0 && (has(u, "domain") || has(u, "host") || has(u, "registry")):
			di = i
		case ri < 0 && has(u, "repo"):
			ri = i
		}
	}
	if (di < 0 || ri < 0) && len(used) == 2 {
		di, ri = 0, 1
	}
	if di < 0 || ri < 0 || di == ri {
		return "", "", false
	}
	return used[di].text, used[ri].text, true
}

// comparedLiterals lists the string literals that the expression `lhs` is compared with
// (== or !=, either operand order) inside a function body, in source order.
func comparedLiterals(fd *ast.FuncDecl, lhs string, op token.Token) []string {
	var out []string
	ast.Inspect(fd.Body, func(n ast.Node) bool {
		be, ok := n.(*ast.BinaryExpr)
		if !ok || be.Op != op {
			return true
		}
		for _, pair := range [][2]ast.Expr{{be.X, be.Y}, {be.Y, be.X}} {
			if exprText(pair[0]) == lhs {
				if bl, ok := pair[1].(*ast.BasicLit); ok && bl.Kind == token.STRING {
					v, _ := strconv.Unquote(bl.Value)
					out = append(out, v)
				}
			}
		}
		return true
	})
	return out
}

// genC09: what the C09 model takes from the source as data.
func genC09() string {
	var b strings.Builder

	// --- verifier/trustpolicy/oci.go, blob.go: supported versions, the scope regexes
	const ociFile = "verifier/trustpolicy/oci.go"
	of := parseFile(ociFile)
	e := findVar(of, "supportedOCIPolicyVersions")
	if e == nil {
		fail("%s: supportedOCIPolicyVersions not found", ociFile)
	}
	fmt.Fprintf(&b, "/-- `supportedOCIPolicyVersions` of %s -/\ndef supportedOCIPolicyVersions : List String := %s\n\n", ociFile, leanStrList(stringSliceLit(ociFile, e)))
	const blobFile = "verifier/trustpolicy/blob.go"
	bf := parseFile(blobFile)
	e = findVar(bf, "supportedBlobPolicyVersions")
	if e == nil {
		fail("%s: supportedBlobPolicyVersions not found", blobFile)
	}
	fmt.Fprintf(&b, "/-- `supportedBlobPolicyVersions` of %s -/\ndef supportedBlobPolicyVersions : List String := %s\n\n", blobFile, leanStrList(stringSliceLit(blobFile, e)))

	// the two expressions of validateRegistryScopeFormat, wherever they are defined; a reader
	// that cannot find them reports it (regexReaderProblems) instead of stopping the extraction
	var rxProblems []string
	domainText, repositoryText := "", ""
	if vf := findFunc(of, "", "validateRegistryScopeFormat"); vf == nil {
		rxProblems = append(rxProblems, ociFile+": function validateRegistryScopeFormat not found")
	} else {
		used, probs := c09UsedRegexes(of, vf)
		rxProblems = append(rxProblems, probs...)
		d, r, ok := c09ScopeRegexes(used)
		if !ok {
			rxProblems = append(rxProblems, fmt.Sprintf("%s: validateRegistryScopeFormat matches %d regular expressions, cannot tell domain from repository", ociFile, len(used)))
		}
		domainText, repositoryText = d, r
	}
	fmt.Fprintf(&b, "/-- the expression `validateRegistryScopeFormat` matches the domain with (%s) -/\ndef domainRegex : List Char :=\n  %s\n\n", ociFile, c09LeanChars(domainText))
	fmt.Fprintf(&b, "/-- the expression `validateRegistryScopeFormat` matches the repository with -/\ndef repositoryRegex : List Char :=\n  %s\n\n", c09LeanChars(repositoryText))

	// --- internal/trustpolicy/trustpolicy.go: Wildcard, X509Subject
	const itpFile = "internal/trustpolicy/trustpolicy.go"
	ics := consts(parseFile(itpFile))
	for _, c := range []string{"Wildcard", "X509Subject"} {
		if _, ok := ics[c]; !ok {
			fail("%s: constant %s not found", itpFile, c)
		}
	}
	fmt.Fprintf(&b, "/-- `Wildcard` of %s -/\ndef wildcard : List Char := %s\n", itpFile, c09LeanChars(ics["Wildcard"]))
	fmt.Fprintf(&b, "/-- `X509Subject` -/\ndef x509Subject : List Char := %s\n\n", c09LeanChars(ics["X509Subject"]))

	// --- verifier/truststore: Types
	const tsFile = "verifier/truststore/truststore.go"
	tf := parseFile(tsFile)
	tcs := consts(tf)
	te, ok := findVar(tf, "Types").(*ast.CompositeLit)
	if !ok {
		fail("%s: Types is not a composite literal", tsFile)
	}
	var types []string
	for _, el := range te.Elts {
		id, ok := el.(*ast.Ident)
		if !ok {
			fail("%s: Types has a non-identifier element", tsFile)
		}
		v, ok := tcs[id.Name]
		if !ok {
			fail("%s: constant %s not found", tsFile, id.Name)
		}
		types = append(types, v)
	}
	var typeChars []string
	for _, t := range types {
		typeChars = append(typeChars, c09LeanChars(t))
	}
	fmt.Fprintf(&b, "/-- `truststore.Types` of %s -/\ndef trustStoreTypes : List (List Char) := [%s]\n\n", tsFile, strings.Join(typeChars, ", "))

	// --- internal/file/file.go: IsValidFileName
	const fileFile = "internal/file/file.go"
	ff := parseFile(fileFile)
	iv := mustFunc(ff, fileFile, "", "IsValidFileName")
	fileNameText := ""
	{
		used, probs := c09UsedRegexes(ff, iv)
		rxProblems = append(rxProblems, probs...)
		if len(used) != 1 {
			rxProblems = append(rxProblems, fmt.Sprintf("%s: IsValidFileName matches %d regular expressions, expected 1", fileFile, len(used)))
		} else {
			fileNameText = used[0].text
		}
	}
	fmt.Fprintf(&b, "/-- the regular expression of `file.IsValidFileName` (%s) -/\ndef fileNameRegex : List Char :=\n  %s\n", fileFile, c09LeanChars(fileNameText))
	fmt.Fprintf(&b, "/-- what the readers of the three expressions could not resolve (must be empty) -/\ndef regexReaderProblems : List String := %s\n", leanStrList(rxProblems))
	var refused []string
	lits := comparedLiterals(iv, "fileName", token.EQL)
	sort.Strings(lits) // a set: the order of the comparisons does not matter
	for _, s := range lits {
		refused = append(refused, c09LeanChars(s))
	}
	fmt.Fprintf(&b, "/-- names `IsValidFileName` refuses before it consults the expression (`fileName == …`) -/\ndef fileNameRefused : List (List Char) := [%s]\n\n", strings.Join(refused, ", "))

	// --- internal/pkix/pkix.go: ParseDistinguishedName
	const pkixFile = "internal/pkix/pkix.go"
	pf := parseFile(pkixFile)
	pd := mustFunc(pf, pkixFile, "", "ParseDistinguishedName")
	var mandatory []string
	var infix []string
	ast.Inspect(pd.Body, func(n ast.Node) bool {
		switch x := n.(type) {
		case *ast.AssignStmt:
			if len(x.Lhs) == 1 && exprText(x.Lhs[0]) == "mandatoryFields" {
				mandatory = stringSliceLit(pkixFile, x.Rhs[0])
			}
		case *ast.CallExpr:
			if callName(x) == "strings.Contains" && len(x.Args) == 2 && exprText(x.Args[0]) == "name" {
				infix = append(infix, c09StrLit(pkixFile, x.Args[1]))
			}
		}
		return true
	})
	if mandatory == nil {
		fail("%s: mandatoryFields literal not found in ParseDistinguishedName", pkixFile)
	}
	if len(infix) != 1 {
		fail("%s: expected exactly one strings.Contains(name, …) guard in ParseDistinguishedName, found %d", pkixFile, len(infix))
	}
	fmt.Fprintf(&b, "/-- `mandatoryFields` of pkix.ParseDistinguishedName (%s) -/\ndef mandatoryDNFields : List String := %s\n", pkixFile, leanStrList(mandatory))
	fmt.Fprintf(&b, "/-- the substring that makes ParseDistinguishedName refuse a name outright -/\ndef dnRefusedInfix : List Char := %s\n", c09LeanChars(infix[0]))
	// alias: `if attribute.Type == "S" { attribute.Type = "ST" }`
	var aliasFrom, aliasTo []string
	ast.Inspect(pd.Body, func(n ast.Node) bool {
		is, ok := n.(*ast.IfStmt)
		if !ok {
			return true
		}
		be, ok := is.Cond.(*ast.BinaryExpr)
		if !ok || be.Op != token.EQL || exprText(be.X) != "attribute.Type" {
			return true
		}
		for _, st := range is.Body.List {
			if as, ok := st.(*ast.AssignStmt); ok && len(as.Lhs) == 1 && exprText(as.Lhs[0]) == "attribute.Type" {
				aliasFrom = append(aliasFrom, c09StrLit(pkixFile, be.Y))
				aliasTo = append(aliasTo, c09StrLit(pkixFile, as.Rhs[0]))
			}
		}
		return true
	})
	if len(aliasFrom) != 1 {
		fail("%s: expected exactly one attribute type alias in ParseDistinguishedName, found %d", pkixFile, len(aliasFrom))
	}
	fmt.Fprintf(&b, "/-- attribute type alias applied by ParseDistinguishedName -/\ndef dnAliasFrom : String := %s\ndef dnAliasTo : String := %s\n\n", leanStr(aliasFrom[0]), leanStr(aliasTo[0]))

	// --- verifier/trustpolicy/trustpolicy.go: LevelSkip.Name, the literal validatePolicyCore compares with
	const tpFile = "verifier/trustpolicy/trustpolicy.go"
	tp := parseFile(tpFile)
	ls, ok := findVar(tp, "LevelSkip").(*ast.UnaryExpr)
	if !ok {
		fail("%s: LevelSkip is not &VerificationLevel{...}", tpFile)
	}
	skipName := ""
	for _, el := range ls.X.(*ast.CompositeLit).Elts {
		kv := el.(*ast.KeyValueExpr)
		if kv.Key.(*ast.Ident).Name == "Name" {
			skipName = c09StrLit(tpFile, kv.Value)
		}
	}
	if skipName == "" {
		fail("%s: LevelSkip has no Name", tpFile)
	}
	fmt.Fprintf(&b, "/-- `LevelSkip.Name` (%s) -/\ndef levelSkipName : String := %s\n", tpFile, leanStr(skipName))
	vc := mustFunc(tp, tpFile, "", "validatePolicyCore")
	lits = comparedLiterals(vc, "verificationLevel.Name", token.EQL)
	if len(lits) != 1 {
		fail("%s: expected exactly one `verificationLevel.Name == \"…\"` in validatePolicyCore, found %d", tpFile, len(lits))
	}
	fmt.Fprintf(&b, "/-- the literal `validatePolicyCore` compares the effective level's name with -/\ndef policyCoreSkipLiteral : String := %s\n", leanStr(lits[0]))
	gv := mustFunc(tp, tpFile, "SignatureVerification", "GetVerificationLevel")
	custom := ""
	ast.Inspect(gv.Body, func(n ast.Node) bool {
		cl, ok := n.(*ast.CompositeLit)
		if !ok || exprText(cl.Type) != "VerificationLevel" {
			return true
		}
		for _, el := range cl.Elts {
			if kv, ok := el.(*ast.KeyValueExpr); ok && exprText(kv.Key) == "Name" {
				custom = c09StrLit(tpFile, kv.Value)
			}
		}
		return true
	})
	if custom == "" {
		fail("%s: GetVerificationLevel does not name its custom level", tpFile)
	}
	fmt.Fprintf(&b, "/-- name `GetVerificationLevel` gives a level with overrides -/\ndef customLevelName : String := %s\n", leanStr(custom))
	return b.String()
}

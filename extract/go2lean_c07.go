package main

// Translated-source tie of C07 (docs/TIE_BRIEF.md): the pure decision code of the blob sign / verify
// round trip, translated on every run.
//
//	SrcC07   notation.go                    validateContentMediaType, SignBlob, VerifyBlob (argument checks, mapping of
//	                                        the options, what is returned), the closure getDescriptorFunc returns
//	SrcC07b  internal/envelope/envelope.go  SanitizeTargetArtifact (which fields survive)
//	SrcC07c  signer/signer.go, plugin.go    `algorithms`, getDescriptor (digest algorithm from the key spec's hash)
//	SrcC07d  verifier/verifier.go           `algorithms`, the tail of verifier.VerifyBlob (digest algorithm from the
//	                                        signature algorithm's hash, availability guard, descriptor comparison)
//
// validateSignArguments / validateSigMediaType / addUserMetadataToDescriptor are C11's translations
// (Generated/SrcC11.lean, imported); proto.DecodeKeySpec / EncodeKeySpec / HashAlgorithmFromKeySpec are C18's.
// ORACLES (fields of `notation.BlobEnv`, `verifier.VEnv`, Src/TypesC07.lean - the ties hold for every choice):
// mime.ParseMediaType, io.Copy into the digester's hash (byte count or error) and the digester's digest
// afterwards, the signer's SignBlob, the verifier's VerifyBlob, json.Unmarshal of the payload, the descriptor
// generator handed to the verifier, verifyUserMetadata. notation-core-go's `KeySpec.SignatureAlgorithm` and
// `Algorithm.Hash` are hand-written copies checked against the regenerated fact tables (Props/C07.lean).

func init() {
	families = append(families,
		family{"SrcC07", func() string {
			return g2lFile("«notation»", "", srcC07, "NotationModel.Src.TypesC07", "NotationModel.Generated.SrcC11")
		}},
		family{"SrcC07b", func() string {
			return g2lFile("envelope", "", srcC07b, "NotationModel.Src.TypesC07")
		}},
		family{"SrcC07c", func() string {
			return g2lFile("signer", g2lDecls("signer/plugin.go", []string{"algorithms"}), srcC07c, "NotationModel.Src.TypesC07")
		}},
		family{"SrcC07d", func() string {
			return g2lFile("verifier", g2lDecls("verifier/verifier.go", []string{"algorithms"}), srcC07d, "NotationModel.Src.TypesC07")
		}})
}

var srcC07 = []*g2lTarget{
	{
		file: "notation.go", fn: "validateContentMediaType", leanName: "validateContentMediaType",
		params:    "(env : BlobEnv) (contentMediaType : String)",
		ret:       "Option GoLite.Err",
		retOpt:    []bool{true},
		optVars:   []string{"err"},
		callSubst: map[string]string{"mime.ParseMediaType": "env.ParseMediaType"},
	},
	{
		// the closure getDescriptorFunc returns: the blob descriptor generator of SignBlob and VerifyBlob
		file: "notation.go", fn: "getDescriptorFunc", leanName: "getDescriptorFunc", closureOf: "return",
		outer: []string{"ctx", "reader", "contentMediaType", "userMetadata"},
		params: "(env : BlobEnv) (reader : Option io.Reader) (contentMediaType : String) (userMetadata : GoLite.Map String String) " +
			"(hashAlgo : digest.Algorithm)",
		ret:      "ocispec.Descriptor × Option GoLite.Err",
		retOpt:   []bool{false, true},
		nres:     2,
		optVars:  []string{"err"},
		dropArgs: []string{"ctx"},
		zeroFill: true,
		// the digester is a mutable hash object: what io.Copy writes into it and what it digests afterwards are oracles
		subst: map[string]string{
			"hashAlgo.Digester()":             "()",
			"io.Copy(digester.Hash(),reader)": "(env.Copy hashAlgo reader)",
			"digester.Digest()":               "(env.Digest hashAlgo reader)",
		},
		// C11's translation of addUserMetadataToDescriptor returns a third component (the ghost of the caller's
		// annotation map, C11's business); the Go function has two results
		callSubst: map[string]string{"addUserMetadataToDescriptor": "(fun d m => ((addUserMetadataToDescriptor d m).1, (addUserMetadataToDescriptor d m).2.1))"},
	},
	{
		file: "notation.go", fn: "SignBlob", leanName: "SignBlob",
		params:   "(env : BlobEnv) (signer : Option Signer) (blobReader : Option io.Reader) (signBlobOpts : SignBlobOptions)",
		ret:      "Option Bytes × Option signature.SignerInfo × Option GoLite.Err",
		retOpt:   []bool{true, true, true},
		optVars:  []string{"signer", "blobReader", "err"},
		dropArgs: []string{"ctx"},
		callSubst: map[string]string{"validateContentMediaType": "validateContentMediaType env",
			"getDescriptorFunc": "getDescriptorFunc env", "signer.SignBlob": "env.SignerSignBlob"},
	},
	{
		file: "notation.go", fn: "VerifyBlob", leanName: "VerifyBlob",
		params: "(env : BlobEnv) (blobVerifier : Option BlobVerifier) (blobReader : Option io.Reader) (signature : Bytes) " +
			"(verifyBlobOpts : VerifyBlobOptions)",
		ret:       "ocispec.Descriptor × Option BlobOutcome × Option GoLite.Err",
		retOpt:    []bool{false, true, true},
		optVars:   []string{"blobVerifier", "blobReader", "err", "vo"},
		dropArgs:  []string{"ctx"},
		optFields: []string{"EnvelopeContent"},
		callSubst: map[string]string{"validateContentMediaType": "validateContentMediaType env",
			"getDescriptorFunc": "getDescriptorFunc env", "blobVerifier.VerifyBlob": "env.VerifierVerifyBlob",
			"json.Unmarshal": "env.UnmarshalPayload"},
		outArgs: map[string]int{"json.Unmarshal": 1},
	},
}

var srcC07b = []*g2lTarget{
	{
		file: "internal/envelope/envelope.go", fn: "SanitizeTargetArtifact", leanName: "SanitizeTargetArtifact",
		params: "(targetArtifact : ocispec.FullDescriptor)",
		ret:    "ocispec.Descriptor",
		retOpt: []bool{false},
	},
}

var srcC07c = []*g2lTarget{
	{
		file: "signer/signer.go", fn: "getDescriptor", leanName: "getDescriptor",
		params:  "(ks : signature.KeySpec) (genDesc : digest.Algorithm → ocispec.Descriptor × Option GoLite.Err)",
		ret:     "ocispec.Descriptor × Option GoLite.Err",
		retOpt:  []bool{false, true},
		mapVars: []string{"algorithms"},
	},
}

var srcC07d = []*g2lTarget{
	{
		// verifier.VerifyBlob after the payload is decoded: digest algorithm, descriptor comparison, metadata
		file: "verifier/verifier.go", recv: "verifier", fn: "VerifyBlob", recvName: "v", leanName: "verifyBlobTail", after: "json.Unmarshal",
		outer: []string{"descGenFunc", "opts", "logger", "outcome", "payload"},
		params: "(env : VEnv) (descGenFunc : digest.Algorithm → ocispec.Descriptor × Option GoLite.Err) (opts : BlobVerifierVerifyOptions) " +
			"(err : Option GoLite.Err) (outcome : BlobOutcome) (payload : envelope.Payload)",
		ret:       "BlobOutcome × Option GoLite.Err",
		retOpt:    []bool{false, true},
		nres:      2,
		optVars:   []string{"err"},
		dropCalls: g2lLogging,
		mapVars:   []string{"algorithms"},
		optFields: []string{"Error"},
		// `outcome` points to the VerificationOutcome VerifyBlob itself creates (`outcome := &notation.VerificationOutcome{..}`):
		// nobody else sees it before it is returned, so updating it in place is a plain assignment
		ownedVars: []string{"outcome"},
		mutParams: []string{"outcome", "err"},
		dropArgs:  []string{"logger"},
		callSubst: map[string]string{"verifyUserMetadata": "env.verifyUserMetadata"},
	},
}

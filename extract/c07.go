package main

import (
	"fmt"
	"go/ast"
	"go/parser"
	"go/token"
	"os"
	"os/exec"
	"path/filepath"
	"sort"
	"strconv"
	"strings"
)

// C07 - facts about the sign / verify round trip:
//   - the crypto.Hash -> digest.Algorithm maps `algorithms` of signer/plugin.go and
//     verifier/verifier.go,
//   - the switch tables of plugin/proto/algorithm.go (EncodeKeySpec, DecodeKeySpec,
//     HashAlgorithmFromKeySpec, EncodeSigningAlgorithm, DecodeSigningAlgorithm) with the
//     plugin-framework constants resolved to their wire values,
//   - notation-core-go's KeySpec.SignatureAlgorithm and Algorithm.Hash tables (module
//     directory as required by the tree's go.mod),
//   - the descriptor fields kept by envelope.SanitizeTargetArtifact,
//   - the reserved annotation prefixes and the guards of validateSignArguments (notation.go),
//   - which descriptor field notation.VerifyBlob returns and what UserMetadata() returns.
func init() { families = append(families, family{"C07", genC07}) }

// c07ModuleDir locates the source of a module as required by the tree's go.mod.
func c07ModuleDir(mod string) string {
	cmd := exec.Command("go", "list", "-m", "-f", "{{.Dir}}", mod)
	cmd.Dir = repoRoot
	if out, err := cmd.Output(); err == nil {
		if d := strings.TrimSpace(string(out)); d != "" {
			if _, err := os.Stat(d); err == nil {
				return d
			}
		}
	}
	gm, err := os.ReadFile(filepath.Join(repoRoot, "go.mod"))
	if err != nil {
		fail("go.mod: %v", err)
	}
	version := ""
	for _, l := range strings.Split(string(gm), "\n") {
		f := strings.Fields(l)
		for i, w := range f {
			if w == mod && i+1 < len(f) {
				version = f[i+1]
			}
		}
	}
	if version == "" {
		fail("go.mod: no requirement on %s", mod)
	}
	cache := os.Getenv("GOMODCACHE")
	if cache == "" {
		if out, err := exec.Command("go", "env", "GOMODCACHE").Output(); err == nil {
			cache = strings.TrimSpace(string(out))
		}
	}
	d := filepath.Join(cache, mod+"@"+version)
	if _, err := os.Stat(d); err != nil {
		fail("cannot locate %s@%s in the module cache: %v", mod, version, err)
	}
	return d
}

func c07ParseAbs(path string) *ast.File {
	f, err := parser.ParseFile(fset, path, nil, parser.ParseComments)
	if err != nil {
		fail("cannot parse %s: %v", path, err)
	}
	return f
}

// c07Sel is the last element of a selector / identifier expression.
func c07Sel(e ast.Expr) string {
	switch x := e.(type) {
	case *ast.Ident:
		return x.Name
	case *ast.SelectorExpr:
		return x.Sel.Name
	case *ast.BasicLit:
		return x.Value
	}
	return "?" + exprText(e)
}

type c07Pair struct{ k, v string }

// c07MapLit reads a `var name = map[K]V{ a: b, ... }` literal of selectors.
func c07MapLit(f *ast.File, file, name string) []c07Pair {
	e := findVar(f, name)
	if e == nil {
		fail("%s: variable %s not found", file, name)
	}
	cl, ok := e.(*ast.CompositeLit)
	if !ok {
		fail("%s: %s is not a composite literal", file, name)
	}
	if _, ok := cl.Type.(*ast.MapType); !ok {
		fail("%s: %s is not a map literal", file, name)
	}
	var out []c07Pair
	for _, el := range cl.Elts {
		kv, ok := el.(*ast.KeyValueExpr)
		if !ok {
			fail("%s: %s has a non key-value element", file, name)
		}
		out = append(out, c07Pair{c07Sel(kv.Key), c07Sel(kv.Value)})
	}
	if len(out) == 0 {
		fail("%s: %s is empty", file, name)
	}
	return out
}

// c07FirstReturn finds the first result of the first return statement of a case body.
func c07FirstReturn(file string, body []ast.Stmt) (ast.Expr, bool) {
	for _, s := range body {
		if r, ok := s.(*ast.ReturnStmt); ok && len(r.Results) > 0 {
			return r.Results[0], true
		}
	}
	return nil, false
}

func c07TopSwitch(file string, fd *ast.FuncDecl) *ast.SwitchStmt {
	for _, s := range fd.Body.List {
		if sw, ok := s.(*ast.SwitchStmt); ok {
			return sw
		}
	}
	fail("%s: %s has no top-level switch", file, fd.Name.Name)
	return nil
}

// c07FlatSwitch reads `switch x { case A, B: return R ... }` as (A,R),(B,R),...
func c07FlatSwitch(file string, fd *ast.FuncDecl) []c07Pair {
	sw := c07TopSwitch(file, fd)
	var out []c07Pair
	for _, c := range sw.Body.List {
		cc := c.(*ast.CaseClause)
		if cc.List == nil {
			continue // default
		}
		r, ok := c07FirstReturn(file, cc.Body)
		if !ok {
			fail("%s: %s: a case without return", file, fd.Name.Name)
		}
		for _, k := range cc.List {
			out = append(out, c07Pair{c07Sel(k), c07Sel(r)})
		}
	}
	if len(out) == 0 {
		fail("%s: %s: empty switch", file, fd.Name.Name)
	}
	return out
}

type c07KS struct {
	typ  string
	size int
	val  string
}

// c07NestedSwitch reads `switch k.Type { case T: switch k.Size { case N: return R } }`.
func c07NestedSwitch(file string, fd *ast.FuncDecl) []c07KS {
	sw := c07TopSwitch(file, fd)
	if !strings.HasSuffix(exprText(sw.Tag), ".Type") {
		fail("%s: %s: outer switch is not on the key type (%s)", file, fd.Name.Name, exprText(sw.Tag))
	}
	var out []c07KS
	for _, c := range sw.Body.List {
		cc := c.(*ast.CaseClause)
		if cc.List == nil {
			continue
		}
		var inner *ast.SwitchStmt
		for _, s := range cc.Body {
			if x, ok := s.(*ast.SwitchStmt); ok {
				inner = x
			}
		}
		if inner == nil || !strings.HasSuffix(exprText(inner.Tag), ".Size") {
			fail("%s: %s: no inner switch on the key size", file, fd.Name.Name)
		}
		for _, t := range cc.List {
			for _, ic := range inner.Body.List {
				icc := ic.(*ast.CaseClause)
				if icc.List == nil {
					continue
				}
				r, ok := c07FirstReturn(file, icc.Body)
				if !ok {
					fail("%s: %s: a size case without return", file, fd.Name.Name)
				}
				for _, n := range icc.List {
					bl, ok := n.(*ast.BasicLit)
					if !ok || bl.Kind != token.INT {
						fail("%s: %s: size case is not an integer literal", file, fd.Name.Name)
					}
					v, _ := strconv.Atoi(bl.Value)
					out = append(out, c07KS{c07Sel(t), v, c07Sel(r)})
				}
			}
		}
	}
	if len(out) == 0 {
		fail("%s: %s: empty switch", file, fd.Name.Name)
	}
	return out
}

// c07DecodeKeySpec reads `switch k { case C: keySpec.Size = N; keySpec.Type = T }`.
func c07DecodeKeySpec(file string, fd *ast.FuncDecl) []c07KS {
	sw := c07TopSwitch(file, fd)
	var out []c07KS
	for _, c := range sw.Body.List {
		cc := c.(*ast.CaseClause)
		if cc.List == nil {
			continue
		}
		size, typ := -1, ""
		for _, s := range cc.Body {
			as, ok := s.(*ast.AssignStmt)
			if !ok || len(as.Lhs) != 1 || len(as.Rhs) != 1 {
				continue
			}
			switch {
			case strings.HasSuffix(exprText(as.Lhs[0]), ".Size"):
				bl, ok := as.Rhs[0].(*ast.BasicLit)
				if !ok {
					fail("%s: DecodeKeySpec: size is not a literal", file)
				}
				size, _ = strconv.Atoi(bl.Value)
			case strings.HasSuffix(exprText(as.Lhs[0]), ".Type"):
				typ = c07Sel(as.Rhs[0])
			}
		}
		if size < 0 || typ == "" {
			fail("%s: DecodeKeySpec: a case does not set both size and type", file)
		}
		for _, k := range cc.List {
			out = append(out, c07KS{typ, size, c07Sel(k)})
		}
	}
	if len(out) == 0 {
		fail("%s: DecodeKeySpec: empty switch", file)
	}
	return out
}

func c07Strip(s, prefix, file string) string {
	if !strings.HasPrefix(s, prefix) {
		fail("%s: expected a name with prefix %s, got %s", file, prefix, s)
	}
	return strings.TrimPrefix(s, prefix)
}

func c07PairList(ps []c07Pair) string {
	var q []string
	for _, p := range ps {
		q = append(q, "("+leanStr(p.k)+", "+leanStr(p.v)+")")
	}
	return "[" + strings.Join(q, ", ") + "]"
}

// key-spec keyed table: ((type, size), value)
func c07KSList(ks []c07KS) string {
	var q []string
	for _, k := range ks {
		q = append(q, fmt.Sprintf("((%s, %d), %s)", leanStr(k.typ), k.size, leanStr(k.val)))
	}
	return "[" + strings.Join(q, ", ") + "]"
}

// value keyed table: (value, (type, size))
func c07KSListRev(ks []c07KS) string {
	var q []string
	for _, k := range ks {
		q = append(q, fmt.Sprintf("(%s, (%s, %d))", leanStr(k.val), leanStr(k.typ), k.size))
	}
	return "[" + strings.Join(q, ", ") + "]"
}

// c07CompositeFields lists the field names of the composite literal returned by a function.
func c07CompositeFields(file string, fd *ast.FuncDecl, arg string) []string {
	var out []string
	found := false
	ast.Inspect(fd.Body, func(n ast.Node) bool {
		// the descriptor literal of the function, returned directly or through a local
		cl, ok := n.(*ast.CompositeLit)
		if !ok || found || len(cl.Elts) == 0 {
			return true
		}
		found = true
		for _, el := range cl.Elts {
			kv, ok := el.(*ast.KeyValueExpr)
			if !ok {
				fail("%s: %s: positional composite literal", file, fd.Name.Name)
			}
			field := c07Sel(kv.Key)
			// the value must be the same field of the argument (a plain copy)
			if exprText(kv.Value) != arg+"."+field {
				fail("%s: %s: field %s is not a plain copy (%s)", file, fd.Name.Name, field, exprText(kv.Value))
			}
			out = append(out, field)
		}
		return false
	})
	if !found {
		fail("%s: %s builds no composite literal", file, fd.Name.Name)
	}
	return out
}

func genC07() string {
	var b strings.Builder
	w := func(format string, a ...any) { fmt.Fprintf(&b, format, a...) }

	// ---- plugin framework constants (wire values) ------------------------------------
	fwDir := c07ModuleDir("github.com/notaryproject/notation-plugin-framework-go")
	fwFile := filepath.Join(fwDir, "plugin", "algorithm.go")
	fwConsts := consts(c07ParseAbs(fwFile))
	wire := func(name string) string {
		v, ok := fwConsts[name]
		if !ok {
			fail("%s: constant %s not found", fwFile, name)
		}
		return v
	}

	// ---- `algorithms` maps ------------------------------------------------------------
	for _, x := range []struct{ file, lean string }{
		{"signer/plugin.go", "c07SignerDigestOfHash"},
		{"verifier/verifier.go", "c07VerifierDigestOfHash"},
	} {
		ps := c07MapLit(parseFile(x.file), x.file, "algorithms")
		w("/-- `algorithms` of %s: crypto.Hash -> digest.Algorithm (selector names) -/\n", x.file)
		w("def %s : List (String × String) := %s\n\n", x.lean, c07PairList(ps))
	}

	// which map getDescriptor (signer) and VerifyBlob (verifier) index, and with what
	sg := parseFile("signer/signer.go")
	gd := mustFunc(sg, "signer/signer.go", "", "getDescriptor")
	idx := ""
	ast.Inspect(gd.Body, func(n ast.Node) bool {
		if ie, ok := n.(*ast.IndexExpr); ok && exprText(ie.X) == "algorithms" {
			idx = exprText(ie.Index)
		}
		return true
	})
	if idx == "" {
		fail("signer/signer.go: getDescriptor does not index `algorithms`")
	}
	w("/-- the expression getDescriptor (signer/signer.go) indexes `algorithms` with -/\n")
	w("def c07SignerHashExpr : String := %s\n\n", leanStr(idx))
	vf := parseFile("verifier/verifier.go")
	vb := mustFunc(vf, "verifier/verifier.go", "verifier", "VerifyBlob")
	// the index of `algorithms[..]`, and - when it is a local - the expression that local was bound to
	// (whatever the local is called)
	vidx, vsrc := "", ""
	defs := map[string]string{}
	ast.Inspect(vb.Body, func(n ast.Node) bool {
		switch x := n.(type) {
		case *ast.AssignStmt:
			if len(x.Lhs) >= 1 && len(x.Rhs) == 1 {
				if ie, ok := x.Rhs[0].(*ast.IndexExpr); ok && exprText(ie.X) == "algorithms" {
					vidx = exprText(ie.Index)
				}
				if id, ok := x.Lhs[0].(*ast.Ident); ok && len(x.Lhs) == 1 {
					if _, seen := defs[id.Name]; !seen {
						defs[id.Name] = exprText(x.Rhs[0])
					}
				}
			}
		}
		return true
	})
	vsrc = vidx
	if d, ok := defs[vidx]; ok {
		vsrc = d
	}
	if vidx == "" || vsrc == "" {
		fail("verifier/verifier.go: VerifyBlob does not derive the digest algorithm from `algorithms`")
	}
	w("/-- how verifier.VerifyBlob obtains the hash it indexes `algorithms` with -/\n")
	w("def c07VerifierHashExpr : String := %s\n\n", leanStr(vsrc))

	// ---- notation-core-go tables -------------------------------------------------------
	coreDir := c07ModuleDir("github.com/notaryproject/notation-core-go")
	var coreFile string
	var saFn, hashFn *ast.FuncDecl
	for _, rel := range []string{"internal/algorithm/algorithm.go", "signature/algorithm.go"} {
		p := filepath.Join(coreDir, rel)
		if _, err := os.Stat(p); err != nil {
			continue
		}
		f := c07ParseAbs(p)
		if a, h := findFunc(f, "KeySpec", "SignatureAlgorithm"), findFunc(f, "Algorithm", "Hash"); a != nil && h != nil {
			coreFile, saFn, hashFn = p, a, h
			break
		}
	}
	if saFn == nil {
		fail("notation-core-go: KeySpec.SignatureAlgorithm / Algorithm.Hash not found in %s", coreDir)
	}
	var coreSA []c07KS
	for _, k := range c07NestedSwitch(coreFile, saFn) {
		coreSA = append(coreSA, c07KS{c07Strip(k.typ, "KeyType", coreFile), k.size, c07Strip(k.val, "Algorithm", coreFile)})
	}
	w("/-- notation-core-go `KeySpec.SignatureAlgorithm`: (key type, size) -> signature algorithm -/\n")
	w("def c07CoreSigAlgOfKeySpec : List ((String × Nat) × String) := %s\n\n", c07KSList(coreSA))
	var coreH []c07Pair
	for _, p := range c07FlatSwitch(coreFile, hashFn) {
		coreH = append(coreH, c07Pair{c07Strip(p.k, "Algorithm", coreFile), p.v})
	}
	w("/-- notation-core-go `Algorithm.Hash`: signature algorithm -> crypto.Hash -/\n")
	w("def c07CoreHashOfSigAlg : List (String × String) := %s\n\n", c07PairList(coreH))

	// ---- plugin/proto/algorithm.go ------------------------------------------------------
	const pf = "plugin/proto/algorithm.go"
	pa := parseFile(pf)
	var enc []c07KS
	for _, k := range c07NestedSwitch(pf, mustFunc(pa, pf, "", "EncodeKeySpec")) {
		enc = append(enc, c07KS{c07Strip(k.typ, "KeyType", pf), k.size, wire(k.val)})
	}
	w("/-- proto.EncodeKeySpec: (key type, size) -> plugin key spec name -/\n")
	w("def c07ProtoEncodeKeySpec : List ((String × Nat) × String) := %s\n\n", c07KSList(enc))
	var dec []c07KS
	for _, k := range c07DecodeKeySpec(pf, mustFunc(pa, pf, "", "DecodeKeySpec")) {
		dec = append(dec, c07KS{c07Strip(k.typ, "KeyType", pf), k.size, wire(k.val)})
	}
	w("/-- proto.DecodeKeySpec: plugin key spec name -> (key type, size) -/\n")
	w("def c07ProtoDecodeKeySpec : List (String × (String × Nat)) := %s\n\n", c07KSListRev(dec))
	var hk []c07KS
	for _, k := range c07NestedSwitch(pf, mustFunc(pa, pf, "", "HashAlgorithmFromKeySpec")) {
		hk = append(hk, c07KS{c07Strip(k.typ, "KeyType", pf), k.size, wire(k.val)})
	}
	w("/-- proto.HashAlgorithmFromKeySpec: (key type, size) -> plugin hash algorithm name -/\n")
	w("def c07ProtoHashOfKeySpec : List ((String × Nat) × String) := %s\n\n", c07KSList(hk))
	var es []c07Pair
	for _, p := range c07FlatSwitch(pf, mustFunc(pa, pf, "", "EncodeSigningAlgorithm")) {
		es = append(es, c07Pair{c07Strip(p.k, "Algorithm", pf), wire(p.v)})
	}
	w("/-- proto.EncodeSigningAlgorithm: signature algorithm -> plugin signing algorithm name -/\n")
	w("def c07ProtoEncodeSigAlg : List (String × String) := %s\n\n", c07PairList(es))
	var ds []c07Pair
	for _, p := range c07FlatSwitch(pf, mustFunc(pa, pf, "", "DecodeSigningAlgorithm")) {
		ds = append(ds, c07Pair{wire(p.k), c07Strip(p.v, "Algorithm", pf)})
	}
	w("/-- proto.DecodeSigningAlgorithm: plugin signing algorithm name -> signature algorithm -/\n")
	w("def c07ProtoDecodeSigAlg : List (String × String) := %s\n\n", c07PairList(ds))

	// ---- SanitizeTargetArtifact -----------------------------------------------------------
	const ef = "internal/envelope/envelope.go"
	envf := parseFile(ef)
	sfn := mustFunc(envf, ef, "", "SanitizeTargetArtifact")
	if len(sfn.Type.Params.List) != 1 || len(sfn.Type.Params.List[0].Names) != 1 {
		fail("%s: SanitizeTargetArtifact: unexpected signature", ef)
	}
	fields := c07CompositeFields(ef, sfn, sfn.Type.Params.List[0].Names[0].Name)
	sort.Strings(fields)
	w("/-- descriptor fields copied by envelope.SanitizeTargetArtifact (sorted) -/\n")
	w("def c07SanitizeFields : List String := %s\n\n", leanStrList(fields))

	// both signing paths build the payload from SanitizeTargetArtifact(desc)
	for _, x := range []struct{ file, recv, fn, lean string }{
		{"signer/signer.go", "GenericSigner", "Sign", "c07GenericSignSanitizes"},
		{"signer/plugin.go", "PluginSigner", "generateSignatureEnvelope", "c07EnvelopePluginSanitizes"},
	} {
		fd := mustFunc(parseFile(x.file), x.file, x.recv, x.fn)
		ok := false
		ast.Inspect(fd.Body, func(n ast.Node) bool {
			if cl, isCl := n.(*ast.CompositeLit); isCl && exprText(cl.Type) == "envelope.Payload" {
				for _, el := range cl.Elts {
					if kv, isKV := el.(*ast.KeyValueExpr); isKV && c07Sel(kv.Key) == "TargetArtifact" &&
						strings.HasPrefix(exprText(kv.Value), "envelope.SanitizeTargetArtifact(") {
						ok = true
					}
				}
			}
			return true
		})
		w("/-- %s.%s builds the payload as envelope.Payload{TargetArtifact: envelope.SanitizeTargetArtifact(desc)} -/\n", x.recv, x.fn)
		w("def %s : Bool := %s\n\n", x.lean, leanBool(ok))
	}

	// ---- notation.go ------------------------------------------------------------------------
	const nf = "notation.go"
	nfile := parseFile(nf)
	rp := findVar(nfile, "reservedAnnotationPrefixes")
	if rp == nil {
		fail("%s: reservedAnnotationPrefixes not found", nf)
	}
	rcl, ok := rp.(*ast.CompositeLit)
	if !ok {
		fail("%s: reservedAnnotationPrefixes is not a literal", nf)
	}
	var prefixes []string
	for _, el := range rcl.Elts {
		bl, ok := el.(*ast.BasicLit)
		if !ok || bl.Kind != token.STRING {
			fail("%s: reservedAnnotationPrefixes has a non-literal element", nf)
		}
		s, _ := strconv.Unquote(bl.Value)
		prefixes = append(prefixes, s)
	}
	w("/-- notation.reservedAnnotationPrefixes -/\n")
	w("def c07ReservedPrefixes : List String := %s\n\n", leanStrList(prefixes))

	// guards of validateSignArguments: conditions of the `if` statements that return an error
	vsa := mustFunc(nfile, nf, "", "validateSignArguments")
	var guards []string
	for _, s := range vsa.Body.List {
		is, ok := s.(*ast.IfStmt)
		if !ok || is.Init != nil {
			continue
		}
		returnsErr := false
		for _, bs := range is.Body.List {
			if r, ok := bs.(*ast.ReturnStmt); ok && len(r.Results) == 1 && exprText(r.Results[0]) != "nil" {
				returnsErr = true
			}
		}
		if returnsErr {
			guards = append(guards, exprText(is.Cond))
		}
	}
	w("/-- conditions under which validateSignArguments refuses (in order) -/\n")
	w("def c07SignArgumentGuards : List String := %s\n\n", leanStrList(guards))

	// both SignOCI and SignBlob call validateSignArguments first
	for _, fn := range []string{"SignOCI", "SignBlob"} {
		fd := mustFunc(nfile, nf, "", fn)
		first := ""
		if len(fd.Body.List) > 0 {
			if is, ok := fd.Body.List[0].(*ast.IfStmt); ok && is.Init != nil {
				if as, ok := is.Init.(*ast.AssignStmt); ok && len(as.Rhs) == 1 {
					if c, ok := as.Rhs[0].(*ast.CallExpr); ok {
						first = callName(c)
					}
				}
			}
		}
		w("/-- the first statement of notation.%s is the call of -/\n", fn)
		w("def c07%sFirstCall : String := %s\n\n", fn, leanStr(first))
	}

	// what UserMetadata() returns (what notation.VerifyBlob returns is tied through the translated source:
	// Tie.source_VerifyBlob_refines_model)
	umf := mustFunc(nfile, nf, "VerificationOutcome", "UserMetadata")
	lastU := umf.Body.List[len(umf.Body.List)-1]
	retU := ""
	if r, ok := lastU.(*ast.ReturnStmt); ok && len(r.Results) == 2 {
		retU = exprText(r.Results[0])
	}
	w("/-- the map expression of the final return of VerificationOutcome.UserMetadata -/\n")
	w("def c07UserMetadataReturns : String := %s\n\n", leanStr(retU))

	// ---- members an envelope plugin's payload may carry besides the unknown ones ------------------
	const spf = "signer/plugin.go"
	uaf := mustFunc(parseFile(spf), spf, "", "areUnknownAttributesAdded")
	var tolerated []string
	ast.Inspect(uaf.Body, func(n ast.Node) bool {
		if ce, ok := n.(*ast.CallExpr); ok && callName(ce) == "delete" && len(ce.Args) == 2 && exprText(ce.Args[0]) == "descriptor" {
			if bl, ok := ce.Args[1].(*ast.BasicLit); ok && bl.Kind == token.STRING {
				k, _ := strconv.Unquote(bl.Value)
				tolerated = append(tolerated, k)
			}
		}
		return true
	})
	if len(tolerated) == 0 {
		fail("%s: areUnknownAttributesAdded removes no expected keys", spf)
	}
	sort.Strings(tolerated)
	w("/-- descriptor members areUnknownAttributesAdded (signer/plugin.go) removes before it reports the rest (sorted) -/\n")
	w("def c07PluginPayloadTolerated : List String := %s\n\n", leanStrList(tolerated))

	// ---- mutable state of the signer objects ------------------------------------------------
	// every write to a field of the receiver in a method of the signer types: (type, method, field)
	var writes []string
	for _, file := range []string{"signer/signer.go", "signer/plugin.go"} {
		for _, wr := range c07ReceiverWrites(parseFile(file)) {
			writes = append(writes, "("+leanStr(wr[0])+", "+leanStr(wr[1])+", "+leanStr(wr[2])+")")
		}
	}
	w("/-- every assignment to a field of the receiver in the methods of signer/signer.go and\n")
	w("signer/plugin.go (type, method, field): what a signer object can remember between calls -/\n")
	w("def c07SignerFieldWrites : List (String × String × String) := [%s]\n", strings.Join(writes, ", "))
	return b.String()
}

// c07ReceiverWrites lists (type, method, field) for every statement of a method that writes to a
// field of its receiver: `r.f = x`, `r.f op= x`, `r.f[k] = x`, `r.f++`, `*r = x` (field "*").
func c07ReceiverWrites(f *ast.File) [][3]string {
	var out [][3]string
	for _, d := range f.Decls {
		fd, ok := d.(*ast.FuncDecl)
		if !ok || fd.Recv == nil || fd.Body == nil || len(fd.Recv.List) != 1 || len(fd.Recv.List[0].Names) != 1 {
			continue
		}
		recv := fd.Recv.List[0].Names[0].Name
		t := fd.Recv.List[0].Type
		if st, ok := t.(*ast.StarExpr); ok {
			t = st.X
		}
		typ := exprText(t)
		var field func(e ast.Expr) (string, bool)
		field = func(e ast.Expr) (string, bool) {
			switch x := e.(type) {
			case *ast.SelectorExpr:
				if id, ok := x.X.(*ast.Ident); ok && id.Name == recv {
					return x.Sel.Name, true
				}
				return field(x.X)
			case *ast.IndexExpr:
				return field(x.X)
			case *ast.StarExpr:
				if id, ok := x.X.(*ast.Ident); ok && id.Name == recv {
					return "*", true
				}
				return field(x.X)
			case *ast.ParenExpr:
				return field(x.X)
			}
			return "", false
		}
		ast.Inspect(fd.Body, func(n ast.Node) bool {
			switch x := n.(type) {
			case *ast.AssignStmt:
				if x.Tok == token.DEFINE {
					return true
				}
				for _, l := range x.Lhs {
					if fl, ok := field(l); ok {
						out = append(out, [3]string{typ, fd.Name.Name, fl})
					}
				}
			case *ast.IncDecStmt:
				if fl, ok := field(x.X); ok {
					out = append(out, [3]string{typ, fd.Name.Name, fl})
				}
			}
			return true
		})
	}
	return out
}

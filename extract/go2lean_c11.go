package main

// C11: the pure decision parts of notation.SignOCI (notation.go), translated on every run into
// lean/NotationModel/Generated/SrcC11.lean:
//
//	reservedAnnotationPrefixes            the table
//	addUserMetadataToDescriptor           reserved-prefix loop, collision check, map copy, merge
//	validateSignArguments, validateSigMediaType
//	generateAnnotations                   which keys are written, over what, in which order
//
// addUserMetadataToDescriptor takes the descriptor by value, but the Annotations map inside it is the
// caller's object (with oci.Store: the store's own tag record - finding F-C11, commit 303ff26). The
// translator does not refuse the `desc.Annotations[k] = v` of the merge loop here; it is told that
// desc.Annotations is a map shared with the caller (`sharedMaps`), translates the write and ALSO
// tracks, in a ghost result, what happens to the caller's map: Props/C11.lean proves for all inputs that
// the ghost comes back unchanged. The same device makes generateAnnotations translatable: there the
// caller's map (signer.PluginAnnotations()) IS written, and the tie says exactly with what.
// Oracles (fields of `notation.AnnEnv`, Src/TypesC11.lean): sha256.Sum256 + hex.EncodeToString of a
// certificate, json.Marshal of the thumbprint list, envelope.SigningTime, Time.Format(time.RFC3339).

func init() {
	families = append(families, family{"SrcC11", func() string {
		return g2lFile("«notation»", g2lDecls("notation.go", []string{"reservedAnnotationPrefixes"}), srcC11, "NotationModel.Src.TypesC11")
	}})
	// what the library's own signers decide about the payload and the plugin config (round 5). Namespaces of their
	// own (c11.signer, c11.envelope): other properties translate some of these functions too, with other type modules.
	families = append(families, family{"SrcC11b", func() string {
		return g2lFile("c11.signer", "", srcC11b, "NotationModel.Src.TypesC11")
	}})
	families = append(families, family{"SrcC11c", func() string {
		return g2lFile("c11.envelope", "", srcC11c, "NotationModel.Src.TypesC11")
	}})
}

var srcC11b = []*g2lTarget{
	{
		// the per-call config is the CALLER's map (SignerSignOptions.PluginConfig): shared, with a ghost
		file: "signer/plugin.go", recv: "PluginSigner", fn: "mergeConfig", recvName: "s", leanName: "PluginSigner.mergeConfig",
		params:     "(s : PluginSigner) (config : GoLite.Map String String)",
		ret:        "GoLite.Map String String × GoLite.Map String String",
		retOpt:     []bool{false},
		subst:      map[string]string{"range:s.pluginConfig": "map", "range:config": "map"},
		sharedMaps: []string{"config"},
	},
	{
		file: "signer/plugin.go", fn: "isDescriptorSubset", leanName: "isDescriptorSubset",
		params: "(original newDesc : ocispec.Descriptor)",
		ret:    "Bool",
		retOpt: []bool{false},
		subst:  map[string]string{"range:original.Annotations": "map"},
	},
	{
		file: "signer/plugin.go", fn: "isPayloadDescriptorValid", leanName: "isPayloadDescriptorValid",
		params: "(originalDesc newDesc : ocispec.Descriptor)",
		ret:    "Bool",
		retOpt: []bool{false},
	},
}

var srcC11c = []*g2lTarget{
	{
		file: "internal/envelope/envelope.go", fn: "SanitizeTargetArtifact", leanName: "SanitizeTargetArtifact",
		params: "(targetArtifact : ocispec.Descriptor)",
		ret:    "ocispec.Descriptor",
		retOpt: []bool{false},
	},
}

var srcC11 = []*g2lTarget{
	{
		file: "notation.go", fn: "addUserMetadataToDescriptor", leanName: "addUserMetadataToDescriptor",
		params:     "(desc : ocispec.Descriptor) (userMetadata : GoLite.Map String String)",
		ret:        "ocispec.Descriptor × Option GoLite.Err × GoLite.Map String String",
		retOpt:     []bool{false, true},
		subst:      map[string]string{"range:desc.Annotations": "map", "range:userMetadata": "map"},
		dropCalls:  g2lLogging,
		dropArgs:   []string{"ctx"},
		sharedMaps: []string{"desc.Annotations"},
		// spelled through Src/TypesC11.lean so that this tie does not depend on where the generic helper lives
		callSubst: map[string]string{"strings.HasPrefix": "strings.HasPrefix"},
	},
	{
		file: "notation.go", fn: "validateSigMediaType", leanName: "validateSigMediaType",
		params: "(sigMediaType : String)",
		ret:    "Option GoLite.Err",
		retOpt: []bool{true},
	},
	{
		file: "notation.go", fn: "validateSignArguments", leanName: "validateSignArguments",
		params:  "(signer : Option Signer) (signOpts : SignerSignOptions)",
		ret:     "Option GoLite.Err",
		retOpt:  []bool{true},
		optVars: []string{"signer", "err"},
	},
	{
		// `annotations == nil` is a parameter of the translation (a nil map and an empty one have the same contents);
		// the map itself is the CALLER's (signer.PluginAnnotations()) until it is replaced by a made one
		file: "notation.go", fn: "generateAnnotations", leanName: "generateAnnotations",
		params:     "(env : AnnEnv) (signerInfo : Option signature.SignerInfo) (annotations : GoLite.Map String String) (annotationsNil : Bool)",
		ret:        "GoLite.Map String String × Option GoLite.Err × GoLite.Map String String",
		retOpt:     []bool{false, true},
		optVars:    []string{"signerInfo", "err"},
		subst:      map[string]string{"annotations==nil": "annotationsNil"},
		sharedMaps: []string{"annotations"},
		callSubst: map[string]string{
			"sha256.Sum256":        "env.sum256",
			"hex.EncodeToString":   "env.hex",
			"json.Marshal":         "env.Marshal",
			"string":               "id",
			"envelope.SigningTime": "env.SigningTime",
		},
	},
}

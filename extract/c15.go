package main

import (
	"fmt"
	"go/ast"
	"reflect"
	"strings"
)

func init() { families = append(families, family{"C15", genC15}) }

// genC15: what the C15 model assumes about verifier/crl/crl.go beyond the call skeletons of
// Skeletons.lean - the JSON field names of fileCacheContent, the two tests of checkExpiry with
// what each returns (the boundary `time.Now().After(nextUpdate)` cannot be exercised by wall
// clock), the order of decode / parse / expiry steps in Get with the guards on the delta CRL,
// and the nil guards of Set.
func genC15() string {
	const file = "verifier/crl/crl.go"
	f := parseFile(file)
	var b strings.Builder

	// fileCacheContent: field -> json tag
	var fields []string
	found := false
	ast.Inspect(f, func(n ast.Node) bool {
		ts, ok := n.(*ast.TypeSpec)
		if !ok || ts.Name.Name != "fileCacheContent" {
			return true
		}
		st, ok := ts.Type.(*ast.StructType)
		if !ok {
			fail("%s: fileCacheContent is not a struct", file)
		}
		found = true
		for _, fl := range st.Fields.List {
			tag := ""
			if fl.Tag != nil {
				tag = reflect.StructTag(strings.Trim(fl.Tag.Value, "`")).Get("json")
			}
			for _, n := range fl.Names {
				fields = append(fields, fmt.Sprintf("(%s, %s, %s)", leanStr(n.Name), leanStr(exprText(fl.Type)), leanStr(tag)))
			}
		}
		return false
	})
	if !found {
		fail("%s: type fileCacheContent not found", file)
	}
	fmt.Fprintf(&b, "/-- `fileCacheContent`: (field, type, json tag) -/\ndef crlContentFields : List (String × String × String) := [%s]\n\n", strings.Join(fields, ", "))

	// checkExpiry: every `if cond { ... return X }` in source order, then the final return
	ce := mustFunc(f, file, "", "checkExpiry")
	var tests []string
	final := ""
	for _, st := range ce.Body.List {
		switch s := st.(type) {
		case *ast.IfStmt:
			ret := "?"
			if s.Init != nil || s.Else != nil {
				ret = "unexpected-shape"
			}
			for _, bs := range s.Body.List {
				if r, ok := bs.(*ast.ReturnStmt); ok && len(r.Results) == 1 {
					ret = exprText(r.Results[0])
					if c, ok := r.Results[0].(*ast.CallExpr); ok {
						ret = callName(c) // the message of errors.New does not matter
					}
				}
			}
			tests = append(tests, fmt.Sprintf("(%s, %s)", leanStr(exprText(s.Cond)), leanStr(ret)))
		case *ast.ReturnStmt:
			if len(s.Results) == 1 {
				final = exprText(s.Results[0])
			}
		}
	}
	if len(tests) == 0 {
		fail("%s: checkExpiry has no tests", file)
	}
	fmt.Fprintf(&b, "/-- `checkExpiry`: (condition, what is returned when it holds), in source order -/\ndef crlCheckExpiryTests : List (String × String) := [%s]\n\n", strings.Join(tests, ", "))
	fmt.Fprintf(&b, "/-- `checkExpiry`: the final return -/\ndef crlCheckExpiryFinal : String := %s\n\n", leanStr(final))

	// Get: decode / parse / expiry calls in source order, and every if-condition in source order
	get := mustFunc(f, file, "FileCache", "Get")
	var steps []string
	for _, c := range callsIn(get.Body, "os.", "json.", "x509.", "checkExpiry", "file.") {
		steps = append(steps, exprText(c))
	}
	fmt.Fprintf(&b, "/-- `FileCache.Get`: read, decode, parse and expiry calls in source order -/\ndef crlGetSteps : List String := %s\n\n", leanStrList(steps))
	fmt.Fprintf(&b, "/-- `FileCache.Get`: every if-condition in source order -/\ndef crlGetConds : List String := %s\n\n", leanStrList(ifConds(get.Body)))

	set := mustFunc(f, file, "FileCache", "Set")
	fmt.Fprintf(&b, "/-- `FileCache.Set`: every if-condition in source order -/\ndef crlSetConds : List String := %s\n\n", leanStrList(ifConds(set.Body)))
	var setSteps []string
	for _, c := range callsIn(set.Body, "json.", "file.", "os.") {
		setSteps = append(setSteps, callName(c))
	}
	fmt.Fprintf(&b, "/-- `FileCache.Set`: encode and write calls in source order -/\ndef crlSetSteps : List String := %s\n", leanStrList(setSteps))
	return b.String()
}

func ifConds(body *ast.BlockStmt) []string {
	var out []string
	ast.Inspect(body, func(n ast.Node) bool {
		if _, ok := n.(*ast.FuncLit); ok {
			return false
		}
		if s, ok := n.(*ast.IfStmt); ok {
			out = append(out, exprText(s.Cond))
		}
		return true
	})
	return out
}

package main

import (
	"fmt"
	"go/ast"
	"reflect"
	"strings"
)

func init() { families = append(families, family{"C15", genC15}) }

// genC15: what the C15 model assumes about verifier/crl/crl.go beyond the call skeletons of
// Skeletons.lean and the translated functions of go2lean_c15.go (Get, Set, checkExpiry, fileName
// are tied semantically there): the JSON field names of fileCacheContent, which the harness's
// labelling parse mirrors and which the translation hides inside the json oracles.
func genC15() string {
	const file = "verifier/crl/crl.go"
	f := parseFile(file)
	var b strings.Builder

	// fileCacheContent: field -> json tag
	var fields []string
	found := false
	ast.Inspect(f, func(n ast.Node) bool {
		ts, ok := n.(*ast.TypeSpec)
		if !ok || ts.Name.Name != "fileCacheContent" {
			return true
		}
		st, ok := ts.Type.(*ast.StructType)
		if !ok {
			fail("%s: fileCacheContent is not a struct", file)
		}
		found = true
		for _, fl := range st.Fields.List {
			tag := ""
			if fl.Tag != nil {
				tag = reflect.StructTag(strings.Trim(fl.Tag.Value, "`")).Get("json")
			}
			for _, n := range fl.Names {
				fields = append(fields, fmt.Sprintf("(%s, %s, %s)", leanStr(n.Name), leanStr(exprText(fl.Type)), leanStr(tag)))
			}
		}
		return false
	})
	if !found {
		fail("%s: type fileCacheContent not found", file)
	}
	fmt.Fprintf(&b, "/-- `fileCacheContent`: (field, type, json tag) -/\ndef crlContentFields : List (String × String × String) := [%s]\n\n", strings.Join(fields, ", "))

	return b.String()
}

package main

import (
	"fmt"
	"go/ast"
	goparser "go/parser"
	"go/token"
	"os"
	"os/exec"
	"path/filepath"
	"regexp"
	"strconv"
	"strings"
)

func init() { families = append(families, family{"C19", genC19}) }

// constInt evaluates an integer constant expression made of literals, products, sums and
// parentheses (e.g. `32 * 1024 * 1024`).
func constInt(file, name string, e ast.Expr) uint64 {
	switch x := e.(type) {
	case *ast.BasicLit:
		if x.Kind == token.INT {
			v, err := strconv.ParseUint(strings.ReplaceAll(x.Value, "_", ""), 0, 64)
			if err == nil {
				return v
			}
		}
	case *ast.ParenExpr:
		return constInt(file, name, x.X)
	case *ast.BinaryExpr:
		a, b := constInt(file, name, x.X), constInt(file, name, x.Y)
		switch x.Op {
		case token.MUL:
			return a * b
		case token.ADD:
			return a + b
		case token.SHL:
			return a << b
		}
	}
	fail("%s: constant %s is not a simple integer expression", file, name)
	return 0
}

// modDir locates a dependency of the repository in the module cache.
func modDir(module string) string {
	gomod, err := os.ReadFile(filepath.Join(repoRoot, "go.mod"))
	if err != nil {
		fail("cannot read go.mod: %v", err)
	}
	m := regexp.MustCompile(`(?m)^\s*` + regexp.QuoteMeta(module) + `\s+(v\S+)`).FindSubmatch(gomod)
	if m == nil {
		fail("go.mod: no requirement on %s", module)
	}
	cache := os.Getenv("GOMODCACHE")
	if cache == "" {
		if out, err := exec.Command("go", "env", "GOMODCACHE").Output(); err == nil {
			cache = strings.TrimSpace(string(out))
		}
	}
	if cache == "" {
		cache = filepath.Join(os.Getenv("HOME"), "go", "pkg", "mod")
	}
	dir := filepath.Join(cache, module+"@"+string(m[1]))
	if _, err := os.Stat(dir); err != nil {
		fail("module %s %s is not in the module cache (%s)", module, m[1], dir)
	}
	return dir
}

// c19Tokens renders a statement list as an ordered list of the guards, calls and
// assignments that matter to C19. Tests on `err` are left out; a guard whose body is a
// single return / continue is rendered with that exit.
func c19Tokens(stmts []ast.Stmt, out *[]string) {
	callTok := func(e ast.Expr) {
		ast.Inspect(e, func(n ast.Node) bool {
			if _, ok := n.(*ast.FuncLit); ok {
				return false
			}
			if c, ok := n.(*ast.CallExpr); ok {
				nm := callName(c)
				if nm == "content.FetchAll" || nm == "json.Unmarshal" || nm == "target.Predecessors" ||
					nm == "c.getSignatureBlobDesc" || nm == "oras.PushBytes" || nm == "c.uploadSignatureManifest" {
					var args []string
					for _, a := range c.Args {
						args = append(args, exprText(a))
					}
					*out = append(*out, "call "+nm+"("+strings.Join(args, ",")+")")
				}
			}
			return true
		})
	}
	exitOf := func(b *ast.BlockStmt) string {
		if len(b.List) == 1 {
			switch s := b.List[0].(type) {
			case *ast.ReturnStmt:
				return "return"
			case *ast.BranchStmt:
				return s.Tok.String()
			}
		}
		return ""
	}
	mentionsErr := func(e ast.Expr) bool {
		found := false
		ast.Inspect(e, func(n ast.Node) bool {
			if id, ok := n.(*ast.Ident); ok && id.Name == "err" {
				found = true
			}
			return true
		})
		return found
	}
	for _, st := range stmts {
		switch s := st.(type) {
		case *ast.IfStmt:
			if s.Init != nil {
				c19Tokens([]ast.Stmt{s.Init}, out)
			}
			if mentionsErr(s.Cond) {
				continue
			}
			if ex := exitOf(s.Body); ex != "" && s.Else == nil {
				*out = append(*out, "if "+exprText(s.Cond)+" -> "+ex)
				continue
			}
			*out = append(*out, "if "+exprText(s.Cond)+" {")
			c19Tokens(s.Body.List, out)
			if eb, ok := s.Else.(*ast.BlockStmt); ok {
				*out = append(*out, "} else {")
				c19Tokens(eb.List, out)
			}
			*out = append(*out, "}")
		case *ast.AssignStmt:
			for _, r := range s.Rhs {
				callTok(r)
			}
			if len(s.Lhs) == 1 && len(s.Rhs) == 1 {
				l, r := exprText(s.Lhs[0]), exprText(s.Rhs[0])
				if strings.HasPrefix(l, "node.") || l == "signatureBlobs" {
					*out = append(*out, "set "+l+"="+r)
				}
			}
		case *ast.ExprStmt:
			callTok(s.X)
		case *ast.DeclStmt:
		case *ast.ReturnStmt:
			for _, r := range s.Results {
				callTok(r)
			}
			var rs []string
			for _, r := range s.Results {
				rs = append(rs, exprText(r))
			}
			*out = append(*out, "return "+strings.Join(rs, ","))
		case *ast.RangeStmt:
			*out = append(*out, "range "+exprText(s.X)+" {")
			c19Tokens(s.Body.List, out)
			*out = append(*out, "}")
		case *ast.SwitchStmt:
			*out = append(*out, "switch "+exprText(s.Tag))
		}
	}
}

func genC19() string {
	const file = "registry/repository.go"
	f := parseFile(file)
	var b strings.Builder
	for _, name := range []string{"maxBlobSizeLimit", "maxManifestSizeLimit"} {
		e := findVar(f, name)
		if e == nil {
			fail("%s: constant %s not found", file, name)
		}
		fmt.Fprintf(&b, "/-- `%s` of %s -/\ndef c19%s : Nat := %d\n\n", name, file, strings.ToUpper(name[:1])+name[1:], constInt(file, name, e))
	}
	strConst := func(path, name string, cs map[string]string) string {
		v, ok := cs[name]
		if !ok {
			fail("%s: string constant %s not found", path, name)
		}
		return v
	}
	mt := consts(parseFile("registry/mediatype.go"))
	fmt.Fprintf(&b, "/-- `ArtifactTypeNotation` of registry/mediatype.go -/\ndef c19ArtifactTypeNotation : String := %s\n\n", leanStr(strConst("registry/mediatype.go", "ArtifactTypeNotation", mt)))
	as := consts(parseFile("registry/internal/artifactspec/artifact.go"))
	fmt.Fprintf(&b, "/-- `artifactspec.MediaTypeArtifactManifest` -/\ndef c19MediaTypeArtifactManifest : String := %s\n\n", leanStr(strConst("registry/internal/artifactspec/artifact.go", "MediaTypeArtifactManifest", as)))
	// image-spec constants from the module cache (version pinned by go.mod)
	specDir := modDir("github.com/opencontainers/image-spec")
	sf, err := c19ParseAbs(filepath.Join(specDir, "specs-go", "v1", "mediatype.go"))
	if err != nil {
		fail("image-spec mediatype.go: %v", err)
	}
	sc := consts(sf)
	fmt.Fprintf(&b, "/-- `ocispec.MediaTypeImageManifest` (image-spec, module cache) -/\ndef c19MediaTypeImageManifest : String := %s\n\n", leanStr(strConst("image-spec mediatype.go", "MediaTypeImageManifest", sc)))
	fmt.Fprintf(&b, "/-- `ocispec.MediaTypeImageIndex` -/\ndef c19MediaTypeImageIndex : String := %s\n\n", leanStr(strConst("image-spec mediatype.go", "MediaTypeImageIndex", sc)))
	af, err := c19ParseAbs(filepath.Join(specDir, "specs-go", "v1", "annotations.go"))
	if err != nil {
		fail("image-spec annotations.go: %v", err)
	}
	fmt.Fprintf(&b, "/-- `ocispec.AnnotationCreated` (added by oras PackManifest when absent) -/\ndef c19AnnotationCreated : String := %s\n\n", leanStr(strConst("image-spec annotations.go", "AnnotationCreated", consts(af))))

	// signatureReferrers: the switch over node.MediaType, one token list per case
	sr := mustFunc(f, file, "", "signatureReferrers")
	var sw *ast.SwitchStmt
	var afterSwitch []ast.Stmt
	ast.Inspect(sr.Body, func(n ast.Node) bool {
		if rs, ok := n.(*ast.RangeStmt); ok && sw == nil {
			for i, st := range rs.Body.List {
				if s, ok := st.(*ast.SwitchStmt); ok {
					sw = s
					afterSwitch = rs.Body.List[i+1:]
				}
			}
		}
		return true
	})
	if sw == nil {
		fail("%s: signatureReferrers has no switch inside its range loop", file)
	}
	fmt.Fprintf(&b, "/-- `signatureReferrers`: switch tag -/\ndef c19ReferrerSwitchTag : String := %s\n\n", leanStr(exprText(sw.Tag)))
	b.WriteString("/-- `signatureReferrers`: per case of the switch (labels, guards / calls / assignments in source order); the default case has no label -/\ndef c19ReferrerCases : List (List String × List String) :=\n  [")
	for i, st := range sw.Body.List {
		cc := st.(*ast.CaseClause)
		var labels []string
		for _, l := range cc.List {
			labels = append(labels, exprText(l))
		}
		var toks []string
		c19Tokens(cc.Body, &toks)
		if i > 0 {
			b.WriteString(",\n   ")
		}
		fmt.Fprintf(&b, "(%s, %s)", leanStrList(labels), leanStrList(toks))
	}
	b.WriteString("]\n\n")
	var post []string
	c19Tokens(afterSwitch, &post)
	fmt.Fprintf(&b, "/-- `signatureReferrers`: what follows the switch inside the loop -/\ndef c19ReferrerAfterSwitch : List String := %s\n\n", leanStrList(post))

	for _, fn := range []struct{ recv, name, lean string }{
		{"repositoryClient", "getSignatureBlobDesc", "c19GetBlobDescSteps"},
		{"repositoryClient", "FetchSignatureBlob", "c19FetchSteps"},
		{"repositoryClient", "PushSignature", "c19PushSteps"},
	} {
		fd := mustFunc(f, file, fn.recv, fn.name)
		var toks []string
		c19Tokens(fd.Body.List, &toks)
		fmt.Fprintf(&b, "/-- `%s`: guards, calls and assignments in source order (tests on `err` left out) -/\ndef %s : List String := %s\n\n", fn.name, fn.lean, leanStrList(toks))
	}
	// ListSignatures falls back to signatureReferrers for a plain GraphTarget
	ls := mustFunc(f, file, "repositoryClient", "ListSignatures")
	usesSR := false
	ast.Inspect(ls.Body, func(n ast.Node) bool {
		if c, ok := n.(*ast.CallExpr); ok && callName(c) == "signatureReferrers" {
			usesSR = true
		}
		return true
	})
	fmt.Fprintf(&b, "/-- `ListSignatures` calls `signatureReferrers` -/\ndef c19ListUsesSignatureReferrers : Bool := %s\n", leanBool(usesSR))
	return b.String()
}

// c19ParseAbs parses a Go file outside the repository (module cache).
func c19ParseAbs(path string) (*ast.File, error) {
	return goparser.ParseFile(fset, path, nil, 0)
}

package main

import (
	"fmt"
	"go/ast"
	"go/parser"
	"go/token"
	"os"
	"path/filepath"
	"strconv"
	"strings"
)

// fail reports a broken tie: a declaration the extractor expects is not there.
func fail(format string, a ...any) {
	if inFamily {
		panic(failure(fmt.Sprintf(format, a...)))
	}
	fmt.Fprintf(os.Stderr, "extract: "+format+"\n", a...)
	os.Exit(3)
}

// failure is what fail raises while one family is being generated (see genFamily)
type failure string

var inFamily bool

var fset = token.NewFileSet()
var repoRoot string

func parseFile(rel string) *ast.File {
	f, err := parser.ParseFile(fset, filepath.Join(repoRoot, rel), nil, parser.ParseComments)
	if err != nil {
		fail("cannot parse %s: %v", rel, err)
	}
	return f
}

// constants of basic-literal value declared in a file: name -> literal text (strings unquoted)
func consts(f *ast.File) map[string]string {
	m := map[string]string{}
	for _, d := range f.Decls {
		gd, ok := d.(*ast.GenDecl)
		if !ok || gd.Tok != token.CONST {
			continue
		}
		for _, sp := range gd.Specs {
			vs := sp.(*ast.ValueSpec)
			for i, n := range vs.Names {
				if i < len(vs.Values) {
					if bl, ok := vs.Values[i].(*ast.BasicLit); ok {
						if bl.Kind == token.STRING {
							v, _ := strconv.Unquote(bl.Value)
							m[n.Name] = v
						} else {
							m[n.Name] = bl.Value
						}
					}
				}
			}
		}
	}
	return m
}

func findVar(f *ast.File, name string) ast.Expr {
	for _, d := range f.Decls {
		gd, ok := d.(*ast.GenDecl)
		if !ok || (gd.Tok != token.VAR && gd.Tok != token.CONST) {
			continue
		}
		for _, sp := range gd.Specs {
			vs := sp.(*ast.ValueSpec)
			for i, n := range vs.Names {
				if n.Name == name && i < len(vs.Values) {
					return vs.Values[i]
				}
			}
		}
	}
	return nil
}

// canonicalRecv: the name the fact extractors and translator configurations use for the receiver of a method
// of each type (the names in the source when they were written). The receiver of a method that is looked up
// is renamed to it, so that renaming a receiver in the source - a harmless rewrite - changes no extracted
// text (facts render calls as text: `m.Uninstall(ctx,pluginName)`).
var canonicalRecv = map[string]string{
	"CLIManager": "m", "CLIPlugin": "p", "FileCache": "c", "repositoryClient": "c", "PluginSigner": "s",
	"pluginPrimitiveSigner": "s", "GenericSigner": "s", "verifier": "v", "OCIDocument": "policyDoc",
	"BlobDocument": "policyDoc", "OCITrustPolicy": "t", "BlobTrustPolicy": "t", "x509TrustStore": "trustStore",
	"SignatureVerification": "signatureVerification", "LimitedWriter": "l", "execCommander": "c",
	"RequestError": "e", "SigningKeys": "s", "sysFS": "s",
}

func canonicalReceiver(fd *ast.FuncDecl, recv string) {
	want, ok := canonicalRecv[recv]
	if !ok || fd.Recv == nil || len(fd.Recv.List) != 1 || len(fd.Recv.List[0].Names) != 1 {
		return
	}
	rid := fd.Recv.List[0].Names[0]
	if rid.Name == want || rid.Obj == nil {
		return
	}
	obj := rid.Obj
	ast.Inspect(fd, func(n ast.Node) bool {
		if id, ok := n.(*ast.Ident); ok && id.Obj == obj {
			id.Name = want
		}
		return true
	})
}

func findFunc(f *ast.File, recv, name string) *ast.FuncDecl {
	for _, d := range f.Decls {
		fd, ok := d.(*ast.FuncDecl)
		if !ok || fd.Name.Name != name {
			continue
		}
		if recv == "" && fd.Recv == nil {
			return fd
		}
		if recv != "" && fd.Recv != nil {
			t := fd.Recv.List[0].Type
			if st, ok := t.(*ast.StarExpr); ok {
				t = st.X
			}
			if id, ok := t.(*ast.Ident); ok && id.Name == recv {
				canonicalReceiver(fd, recv)
				return fd
			}
		}
	}
	return nil
}

func mustFunc(f *ast.File, file, recv, name string) *ast.FuncDecl {
	fd := findFunc(f, recv, name)
	if fd == nil {
		fail("%s: function %s.%s not found", file, recv, name)
	}
	key := file + "::" + recv + "." + name
	if dumpParams != nil {
		dumpParams[key] = fnParamNames(fd)
	} else {
		canonicalParameters(fd, key)
	}
	return fd
}

// dumpParams (flag -dumpparams): collect the parameter names of every function looked up, to (re)write paramnames.go
var dumpParams map[string][]string

func fnParamNames(fd *ast.FuncDecl) []string {
	var ns []string
	for _, p := range fd.Type.Params.List {
		if len(p.Names) == 0 {
			ns = append(ns, "_")
		}
		for _, n := range p.Names {
			ns = append(ns, n.Name)
		}
	}
	return ns
}

// canonicalParameters renames the parameters of a looked-up function, by POSITION, to the names the fact
// extractors and translator configurations were written with (paramnames.go), so that renaming a parameter
// in the source - a harmless rewrite - changes no extracted text and no translated binder. Skipped when the
// number of parameters differs (a real change, reported by whatever depends on it) or when the old name is
// already used by another identifier of the function (the renaming could capture it).
func canonicalParameters(fd *ast.FuncDecl, key string) {
	want, ok := canonicalParams[key]
	if !ok {
		return
	}
	var ids []*ast.Ident
	for _, p := range fd.Type.Params.List {
		if len(p.Names) == 0 {
			ids = append(ids, nil)
		}
		ids = append(ids, p.Names...)
	}
	if len(ids) != len(want) {
		return
	}
	for i, id := range ids {
		if id == nil || id.Name == want[i] || id.Name == "_" || want[i] == "_" || id.Obj == nil {
			continue
		}
		clash := false
		ast.Inspect(fd, func(n ast.Node) bool {
			if x, ok := n.(*ast.Ident); ok && x.Name == want[i] && x.Obj != id.Obj {
				clash = true
			}
			return true
		})
		if clash {
			continue
		}
		obj := id.Obj
		ast.Inspect(fd, func(n ast.Node) bool {
			if x, ok := n.(*ast.Ident); ok && x.Obj == obj {
				x.Name = want[i]
			}
			return true
		})
	}
}

func callName(c *ast.CallExpr) string {
	switch fn := c.Fun.(type) {
	case *ast.SelectorExpr:
		return exprText(fn.X) + "." + fn.Sel.Name
	case *ast.Ident:
		return fn.Name
	}
	return "?"
}

// exprText renders simple expressions (identifiers, selectors, literals, calls) as text.
func exprText(e ast.Expr) string {
	switch x := e.(type) {
	case *ast.Ident:
		return x.Name
	case *ast.SelectorExpr:
		return exprText(x.X) + "." + x.Sel.Name
	case *ast.BasicLit:
		return x.Value
	case *ast.CallExpr:
		var args []string
		for _, a := range x.Args {
			args = append(args, exprText(a))
		}
		return callName(x) + "(" + strings.Join(args, ",") + ")"
	case *ast.StarExpr:
		return "*" + exprText(x.X)
	case *ast.UnaryExpr:
		return x.Op.String() + exprText(x.X)
	case *ast.BinaryExpr:
		return exprText(x.X) + x.Op.String() + exprText(x.Y)
	case *ast.ParenExpr:
		return "(" + exprText(x.X) + ")"
	case *ast.IndexExpr:
		return exprText(x.X) + "[" + exprText(x.Index) + "]"
	case *ast.SliceExpr:
		return exprText(x.X) + "[:]"
	case *ast.CompositeLit:
		return "lit"
	case *ast.FuncLit:
		return "func"
	case *ast.ArrayType:
		return "[]" + exprText(x.Elt)
	case *ast.TypeAssertExpr:
		return exprText(x.X) + ".(T)"
	}
	return "?"
}

// leanStr renders a Go string as a Lean string literal.
func leanStr(s string) string {
	var b strings.Builder
	b.WriteByte('"')
	for _, r := range s {
		switch {
		case r == '"':
			b.WriteString("\\\"")
		case r == '\\':
			b.WriteString("\\\\")
		case r == '\n':
			b.WriteString("\\n")
		case r == '\t':
			b.WriteString("\\t")
		case r < 0x20 || r == 0x7f:
			fmt.Fprintf(&b, "\\x%02x", r)
		default:
			b.WriteRune(r)
		}
	}
	b.WriteByte('"')
	return b.String()
}

func leanStrList(ss []string) string {
	q := make([]string, len(ss))
	for i, s := range ss {
		q[i] = leanStr(s)
	}
	return "[" + strings.Join(q, ", ") + "]"
}

func leanBool(b bool) string {
	if b {
		return "true"
	}
	return "false"
}

// writeIfChanged keeps the olean cache warm when a fact file did not change.
func writeIfChanged(path, content string) {
	old, err := os.ReadFile(path)
	if err == nil && string(old) == content {
		fmt.Println("fact-file unchanged", path)
		return
	}
	if err := os.WriteFile(path, []byte(content), 0o644); err != nil {
		fail("write %s: %v", path, err)
	}
	fmt.Println("fact-file rewritten", path)
}

const header = "/- GENERATED by /verif/extract from the Go source on every run - do not edit. -/\nnamespace NotationModel.Facts\n\n"
const footer = "\nend NotationModel.Facts\n"

package main

// C11: `notation.SignOCI` (notation.go) translated AS A WHOLE on every run into
// lean/NotationModel/Generated/SrcSignOCI.lean by the protocol translator (go2lean_fs.go): a program
// in the monad `SO` of lean/NotationModel/Src/TypesSignOCI.lean in which every call on the
// repository and on the signer is logged, in order, with its arguments, and answered by an oracle.
// The decision functions it calls (`validateSignArguments`, `addUserMetadataToDescriptor`,
// `generateAnnotations`) are the ones translated by go2lean.go into Generated/SrcC11.lean.

func init() {
	families = append(families,
		family{"SrcSignOCI", func() string { return fsFile("signoci", srcSignOCI, "NotationModel.Src.TypesSignOCI") }})
}

var srcSignOCI = []*fsTarget{
	{
		file: "notation.go", fn: "SignOCI", leanName: "SignOCI", monad: "SO",
		params: "(signer : Option Signer) (repo : Option Repository) (signOpts : SignOptions)",
		ret:    "ocispec.Descriptor × ocispec.Descriptor × Option GoLite.Err",
		funcs: map[string]fsCallee{
			"validateSignArguments":       {lean: "validateSignArguments", nres: 1},
			"orasRegistry.ParseReference": {lean: "parseReference", effect: true, nres: 2},
			"digest.Parse":                {lean: "digestParse", effect: true, nres: 2},
			"addUserMetadataToDescriptor": {lean: "addUserMetadataToDescriptor", nres: 2},
			"generateAnnotations":         {lean: "generateAnnotations", effect: true, nres: 2},
		},
		methods: map[string]fsCallee{
			"Resolve":                {lean: "Repository.Resolve", effect: true, nres: 2},
			"PushSignature":          {lean: "Repository.PushSignature", effect: true, nres: 3},
			"Sign":                   {lean: "Signer.Sign", effect: true, nres: 3},
			"PluginAnnotations":      {lean: "SignerAnnotation.PluginAnnotations", effect: true, nres: 1},
			"String":                 {lean: "Digest.String", nres: 1},
			"IsReferrersIndexDelete": {lean: "ReferrersError.IsReferrersIndexDelete", nres: 1},
		},
		dropCalls: []string{"log.GetLogger"},
		dropArgs:  []string{"ctx"},
		zeroValues: map[string]string{
			"ocispec.Descriptor": "(default : ocispec.Descriptor)",
			"map[string]string":  "(none : Option (GoLite.Map String String))",
		},
		literals: map[string]string{"ErrorPushSignatureFailed": "(some ErrorPushSignatureFailed)"},
		asserts:  map[string]string{"signerAnnotation": "asSignerAnnotation"},
		asFuncs:  map[string]string{"*remote.ReferrersError": "asReferrersError"},
	},
}

package main

// C03 - ties to the translated source: the loop that decides which listed trust stores are
// loaded (verifier/helpers.go loadX509TrustStoresWithType), the scheme -> store type switches
// in front of it, and isTSATrustStoreInPolicy; the store type constants of package truststore.
// The trust store (`x509TrustStore.GetCertificates`) is an oracle parameter, the processed-store
// set of internal/container is a list (Src/TypesC03.lean).

func init() {
	families = append(families,
		family{"SrcC03b", func() string {
			return g2lFile("truststore", g2lDecls("verifier/truststore/truststore.go",
				[]string{"TypeCA", "TypeSigningAuthority", "TypeTSA", "Types"}), nil, "NotationModel.Src.TypesC03")
		}},
		family{"SrcC03", func() string {
			return g2lFile("verifier", "", srcC03, "NotationModel.Src.TypesC03", "NotationModel.Generated.SrcC03b")
		}},
	)
}

const c03Binders = "(policyName : String) (trustStores : List String) (x509TrustStore : truststore.X509TrustStore)"
const c03Ret = "Option (List x509.Certificate) × Option GoLite.Err"

var c03Calls = map[string]string{
	"truststore.Type": "id",          // conversion string -> truststore.Type
	"*.Add!":          "set.Set.Add", // processedStoreSet.Add(trustStore)
}

var srcC03 = []*g2lTarget{
	{
		file: "verifier/helpers.go", fn: "loadX509TrustStoresWithType", leanName: "loadX509TrustStoresWithType",
		params:    "(ctx : context.Context) (trustStoreType : truststore.«Type») " + c03Binders,
		ret:       c03Ret,
		retOpt:    []bool{true, true},
		optVars:   []string{"err"},
		callSubst: c03Calls,
		dropCalls: g2lLogging,
	},
	{
		file: "verifier/helpers.go", fn: "isTSATrustStoreInPolicy", leanName: "isTSATrustStoreInPolicy",
		params:    "(policyName : String) (trustStores : List String)",
		ret:       "Bool × Option GoLite.Err",
		retOpt:    []bool{false, true},
		callSubst: c03Calls,
		dropCalls: g2lLogging,
	},
	{
		file: "verifier/helpers.go", fn: "loadX509TrustStores", leanName: "loadX509TrustStores",
		params:    "(ctx : context.Context) (scheme : signature.SigningScheme) " + c03Binders,
		ret:       c03Ret,
		retOpt:    []bool{true, true},
		callSubst: c03Calls,
		dropCalls: g2lLogging,
	},
	{
		file: "verifier/helpers.go", fn: "loadX509TSATrustStores", leanName: "loadX509TSATrustStores",
		params:    "(ctx : context.Context) (scheme : signature.SigningScheme) " + c03Binders,
		ret:       c03Ret,
		retOpt:    []bool{true, true},
		callSubst: c03Calls,
		dropCalls: g2lLogging,
	},
}

package main

import (
	"fmt"
	"go/ast"
	"go/parser"
	"go/token"
	"os"
	"path/filepath"
	"regexp"
	"strconv"
	"strings"
)

func init() { families = append(families, family{"C20", genC20}) }

// genC20: facts the plugin-installation model (C20) is tied to:
//   - the text of semver.semVerRegEx,
//   - the "skip sub-directories" tests of file.CopyDirToDir and plugin.parsePluginFromDir,
//   - the executable-bit mask of isExecutableFile and the mode mask of file.CopyToDir,
//   - plugin.BinaryPrefix of notation-plugin-framework-go (version pinned in go.mod),
//   - the order of the checking / removing / copying calls in CLIManager.Install,
//   - the characters validatePluginName rejects.
func genC20() string {
	var b strings.Builder

	// --- semver regex --------------------------------------------------------------------
	const sf = "internal/semver/semver.go"
	sv := parseFile(sf)
	re := findVar(sv, "semVerRegEx")
	call, ok := re.(*ast.CallExpr)
	if !ok || callName(call) != "regexp.MustCompile" || len(call.Args) != 1 {
		fail("%s: semVerRegEx is not regexp.MustCompile(<literal>)", sf)
	}
	lit, ok := call.Args[0].(*ast.BasicLit)
	if !ok || lit.Kind != token.STRING {
		fail("%s: semVerRegEx pattern is not a string literal", sf)
	}
	pat, err := strconv.Unquote(lit.Value)
	if err != nil {
		fail("%s: %v", sf, err)
	}
	fmt.Fprintf(&b, "/-- pattern of `semver.semVerRegEx` (%s) -/\ndef semverRegex : String := %s\n\n", sf, leanStr(pat))
	isValid := mustFunc(sv, sf, "", "IsValid")
	fmt.Fprintf(&b, "/-- calls in `semver.IsValid` -/\ndef semverIsValidCalls : List String := %s\n\n", leanStrList(callTexts(isValid.Body, "semVerRegEx.", "regexp.", "semver.", "strings.")))
	cmp := mustFunc(sv, sf, "", "ComparePluginVersion")
	fmt.Fprintf(&b, "/-- calls in `semver.ComparePluginVersion`, in source order -/\ndef semverCompareCalls : List String := %s\n\n", leanStrList(callTexts(cmp.Body, "IsValid", "semver.")))

	// --- skip tests -----------------------------------------------------------------------
	const ff = "internal/file/file.go"
	fileAst := parseFile(ff)
	cdd := mustFunc(fileAst, ff, "", "CopyDirToDir")
	fmt.Fprintf(&b, "/-- condition under which the walk of `file.CopyDirToDir` returns fs.SkipDir -/\ndef copyDirSkipTest : String := %s\n\n", leanStr(skipDirTest(cdd, ff)))
	ctd := mustFunc(fileAst, ff, "", "CopyToDir")
	var chmodArg string
	// the local that holds the result of os.Stat is rendered under the name the fact was written with, and the
	// Chmod call is found by its method name: renaming locals is a harmless rewrite (the mode the copy gets is
	// also proved from the translated source: Props/C20_CopyToDir.lean)
	ast.Inspect(ctd.Body, func(n ast.Node) bool {
		if as, ok := n.(*ast.AssignStmt); ok && len(as.Rhs) == 1 && len(as.Lhs) == 2 {
			if c, ok := as.Rhs[0].(*ast.CallExpr); ok && callName(c) == "os.Stat" {
				if id, ok := as.Lhs[0].(*ast.Ident); ok && id.Obj != nil && id.Name != "sourceFileInfo" {
					obj := id.Obj
					ast.Inspect(ctd, func(m ast.Node) bool {
						if x, ok := m.(*ast.Ident); ok && x.Obj == obj {
							x.Name = "sourceFileInfo"
						}
						return true
					})
				}
			}
		}
		return true
	})
	ast.Inspect(ctd.Body, func(n ast.Node) bool {
		if c, ok := n.(*ast.CallExpr); ok && len(c.Args) == 1 {
			if sel, ok := c.Fun.(*ast.SelectorExpr); ok && sel.Sel.Name == "Chmod" {
				chmodArg = exprText(c.Args[0])
			}
		}
		return true
	})
	if chmodArg == "" {
		fail("%s: CopyToDir has no Chmod call", ff)
	}
	fmt.Fprintf(&b, "/-- mode given to the copy in `file.CopyToDir` -/\ndef copyToDirChmod : String := %s\n\n", leanStr(chmodArg))

	const mf = "plugin/manager.go"
	man := parseFile(mf)
	ppd := mustFunc(man, mf, "", "parsePluginFromDir")
	fmt.Fprintf(&b, "/-- condition under which the walk of `parsePluginFromDir` returns fs.SkipDir -/\ndef parseDirSkipTest : String := %s\n\n", leanStr(skipDirTest(ppd, mf)))

	// --- order of calls in Install ---------------------------------------------------------
	inst := mustFunc(man, mf, "CLIManager", "Install")
	var calls []string
	for _, c := range callsIn(inst.Body, "parsePluginFromDir", "parsePluginName", "isExecutableFile", "validatePluginName",
		"NewCLIPlugin", "newPlugin.GetMetadata", "m.Get", "existingPlugin.GetMetadata", "semver.ComparePluginVersion",
		"isPathWithin", "setExecutable", "os.Chmod", "m.Uninstall", "os.Remove", "os.RemoveAll", "file.CopyToDir", "file.CopyDirToDir", "os.Rename", "os.Mkdir") {
		calls = append(calls, callName(c))
	}
	// the guard "the source is not inside the plugin's own installation directory": its arguments and
	// that it is the condition of an if statement whose body returns
	var within string
	ast.Inspect(inst.Body, func(n ast.Node) bool {
		is, ok := n.(*ast.IfStmt)
		if !ok {
			return true
		}
		if c, ok := is.Cond.(*ast.CallExpr); ok && callName(c) == "isPathWithin" {
			for _, st := range is.Body.List {
				if _, ok := st.(*ast.ReturnStmt); ok {
					within = exprText(c)
				}
			}
		}
		return true
	})
	if within == "" {
		fail("%s: Install has no `if isPathWithin(...) { return ... }` guard", mf)
	}
	fmt.Fprintf(&b, "/-- the guard of `CLIManager.Install` against a source inside the plugin's own directory -/\ndef installWithinGuard : String := %s\n\n", leanStr(within))
	ipw := mustFunc(man, mf, "", "isPathWithin")
	fmt.Fprintf(&b, "/-- calls of `isPathWithin` -/\ndef isPathWithinCalls : List String := %s\n\n", leanStrList(callTexts(ipw.Body, "filepath.", "strings.")))
	// parsePluginFromDir only reads: no chmod / write call in it
	fmt.Fprintf(&b, "/-- modifying calls in `parsePluginFromDir` (setExecutable, os.Chmod, os.Remove*, os.Write*, os.Create) -/\ndef parseDirWrites : List String := %s\n\n",
		leanStrList(callTexts(ppd.Body, "setExecutable", "os.Chmod", "os.Remove", "os.Write", "os.Create", "os.Rename", "os.Mkdir")))
	fmt.Fprintf(&b, "/-- checking / removing / copying calls of `CLIManager.Install`, in source order -/\ndef installCalls : List String := %s\n\n", leanStrList(calls))
	un := mustFunc(man, mf, "CLIManager", "Uninstall")
	var ucalls []string
	for _, c := range callsIn(un.Body, "validatePluginName", "os.", "m.pluginFS.") {
		ucalls = append(ucalls, callName(c))
	}
	fmt.Fprintf(&b, "/-- calls of `CLIManager.Uninstall`, in source order -/\ndef uninstallCalls : List String := %s\n\n", leanStrList(ucalls))

	// --- validatePluginName ----------------------------------------------------------------
	vpn := mustFunc(man, mf, "", "validatePluginName")
	var cond string
	ast.Inspect(vpn.Body, func(n ast.Node) bool {
		if is, ok := n.(*ast.IfStmt); ok && cond == "" {
			cond = exprText(is.Cond)
		}
		return true
	})
	if cond == "" {
		fail("%s: validatePluginName has no if statement", mf)
	}
	fmt.Fprintf(&b, "/-- rejection test of `validatePluginName` -/\ndef validatePluginNameTest : String := %s\n\n", leanStr(cond))

	// --- manager_unix.go --------------------------------------------------------------------
	const uf = "plugin/manager_unix.go"
	ux := parseFile(uf)
	ief := mustFunc(ux, uf, "", "isExecutableFile")
	var execTest string
	for _, st := range ief.Body.List {
		if rs, ok := st.(*ast.ReturnStmt); ok && len(rs.Results) == 2 {
			execTest = exprText(rs.Results[0])
		}
	}
	if execTest == "" {
		fail("%s: isExecutableFile has no final two-valued return", uf)
	}
	fmt.Fprintf(&b, "/-- value returned by `isExecutableFile` for a regular file -/\ndef isExecutableTest : String := %s\n\n", leanStr(execTest))
	ppn := mustFunc(ux, uf, "", "parsePluginName")
	fmt.Fprintf(&b, "/-- calls in `parsePluginName` -/\ndef parsePluginNameCalls : List String := %s\n\n", leanStrList(callTexts(ppn.Body, "strings.")))
	bn := mustFunc(ux, uf, "", "binName")
	var bnExpr string
	for _, st := range bn.Body.List {
		if rs, ok := st.(*ast.ReturnStmt); ok && len(rs.Results) == 1 {
			bnExpr = exprText(rs.Results[0])
		}
	}
	fmt.Fprintf(&b, "/-- `binName(name)` -/\ndef binNameExpr : String := %s\n\n", leanStr(bnExpr))

	// --- BinaryPrefix of the plugin framework module pinned in go.mod ---------------------------
	gomod, err := os.ReadFile(filepath.Join(repoRoot, "go.mod"))
	if err != nil {
		fail("go.mod: %v", err)
	}
	m := regexp.MustCompile(`(?m)^\s*github.com/notaryproject/notation-plugin-framework-go\s+(v\S+)`).FindSubmatch(gomod)
	if m == nil {
		fail("go.mod: notation-plugin-framework-go is not required")
	}
	modcache := os.Getenv("GOMODCACHE")
	if modcache == "" {
		gp := os.Getenv("GOPATH")
		if gp == "" {
			home, _ := os.UserHomeDir()
			gp = filepath.Join(home, "go")
		}
		modcache = filepath.Join(gp, "pkg", "mod")
	}
	protoPath := filepath.Join(modcache, "github.com/notaryproject/notation-plugin-framework-go@"+string(m[1]), "plugin", "proto.go")
	pf, perr := parserParse(protoPath)
	if perr != nil {
		fail("%s: %v", protoPath, perr)
	}
	pcs := consts(pf)
	bp, ok := pcs["BinaryPrefix"]
	if !ok {
		fail("%s: BinaryPrefix not found", protoPath)
	}
	fmt.Fprintf(&b, "/-- `plugin.BinaryPrefix` of notation-plugin-framework-go %s -/\ndef binaryPrefix : String := %s\n", string(m[1]), leanStr(bp))
	return b.String()
}

// callTexts renders the selected calls of a body with their arguments.
func callTexts(body *ast.BlockStmt, prefixes ...string) []string {
	var out []string
	for _, c := range callsIn(body, prefixes...) {
		out = append(out, exprText(c))
	}
	return out
}

// skipDirTest returns the condition of the `if … { return fs.SkipDir }` inside the walk
// callback of fn; exactly one such statement must exist.
func skipDirTest(fn *ast.FuncDecl, file string) string {
	var conds []string
	ast.Inspect(fn.Body, func(n ast.Node) bool {
		is, ok := n.(*ast.IfStmt)
		if !ok {
			return true
		}
		for _, st := range is.Body.List {
			if rs, ok := st.(*ast.ReturnStmt); ok && len(rs.Results) == 1 && exprText(rs.Results[0]) == "fs.SkipDir" {
				conds = append(conds, exprText(is.Cond))
			}
		}
		return true
	})
	if len(conds) != 1 {
		fail("%s: %s: expected exactly one `return fs.SkipDir` guard, found %d", file, fn.Name.Name, len(conds))
	}
	return conds[0]
}

// parserParse parses a Go file outside the repository (module cache).
func parserParse(path string) (*ast.File, error) {
	return parser.ParseFile(fset, path, nil, 0)
}

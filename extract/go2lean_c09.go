package main

// Translation targets of C09 (trust policy validation): the functions that decide whether a
// document is accepted, translated on every run into lean/NotationModel/Generated/SrcC09*.lean.
// One family per Go package. Library calls that are not translated are oracles defined in
// lean/NotationModel/Src/TypesC09.lean (regexp) or parameters of the translated functions
// (pkix.ParseDistinguishedName / ldap.ParseDN).

const (
	c09TP   = "verifier/trustpolicy/trustpolicy.go"
	c09OCI  = "verifier/trustpolicy/oci.go"
	c09Blob = "verifier/trustpolicy/blob.go"
)

func init() {
	families = append(families,
		// internal/file: IsValidFileName
		family{"SrcC09b", func() string {
			return g2lFile("file", "", srcC09file, "NotationModel.Src.TypesC09")
		}},
		// internal/pkix: IsSubsetDN
		family{"SrcC09c", func() string {
			return g2lFile("pkix", "", srcC09pkix, "NotationModel.Src.TypesC09")
		}},
		// verifier/trustpolicy
		family{"SrcC09", func() string {
			decls := g2lDecls(c09OCI, []string{"supportedOCIPolicyVersions"}) + g2lDecls(c09Blob, []string{"supportedBlobPolicyVersions"})
			return g2lFile("trustpolicy", decls, srcC09, "NotationModel.Src.TypesC09", "NotationModel.Generated.SrcLevels",
				"NotationModel.Generated.SrcC09b", "NotationModel.Generated.SrcC09c")
		}},
	)
}

var srcC09file = []*g2lTarget{
	{
		file: "internal/file/file.go", fn: "IsValidFileName", leanName: "IsValidFileName",
		params: "(fileName : String)", ret: "Bool", retOpt: []bool{false},
	},
}

var srcC09pkix = []*g2lTarget{
	{
		file: "internal/pkix/pkix.go", fn: "IsSubsetDN", leanName: "IsSubsetDN",
		params: "(dn1 : GoLite.Map String String) (dn2 : GoLite.Map String String)", ret: "Bool", retOpt: []bool{false},
		mapVars: []string{"dn1", "dn2"},
	},
}

// constants of other packages the trustpolicy functions read: spelled as the regenerated facts
var c09Consts = map[string]string{
	"trustpolicy.Wildcard":    "(String.ofList NotationModel.Facts.wildcard)",
	"trustpolicy.X509Subject": "(String.ofList NotationModel.Facts.x509Subject)",
	"truststore.Types":        "(NotationModel.Facts.trustStoreTypes.map String.ofList)",
}

func c09Subst(extra map[string]string) map[string]string {
	m := map[string]string{}
	for k, v := range c09Consts {
		m[k] = v
	}
	for k, v := range extra {
		m[k] = v
	}
	return m
}

var srcC09 = []*g2lTarget{
	{
		file: c09TP, fn: "isValidTrustStoreType", leanName: "isValidTrustStoreType",
		params: "(s : String)", ret: "Bool", retOpt: []bool{false},
		subst:     c09Subst(nil),
		callSubst: map[string]string{"string": "id"},
	},
	{
		file: c09TP, fn: "validateTrustStore", leanName: "validateTrustStore",
		params: "(policyName : String) (trustStores : List String)", ret: "Option GoLite.Err", retOpt: []bool{true},
		subst: c09Subst(nil),
	},
	{
		file: c09TP, fn: "validateOverlappingDNs", leanName: "validateOverlappingDNs",
		params: "(policyName : String) (parsedDNs : List parsedDN)", ret: "Option GoLite.Err", retOpt: []bool{true},
		subst: c09Subst(nil),
	},
	{
		// pkix.ParseDistinguishedName (go-ldap inside) is a parameter
		file: c09TP, fn: "validateTrustedIdentities", leanName: "validateTrustedIdentities",
		params: "(parseDN : String → GoLite.Map String String × Option GoLite.Err) (policyName : String) (tis : List String)",
		ret:    "Option GoLite.Err", retOpt: []bool{true},
		optVars:   []string{"err"},
		subst:     c09Subst(nil),
		callSubst: map[string]string{"pkix.ParseDistinguishedName": "parseDN"},
	},
	{
		file: c09TP, fn: "validatePolicyCore", leanName: "validatePolicyCore",
		params: "(parseDN : String → GoLite.Map String String × Option GoLite.Err) (name : String) (signatureVerification : SignatureVerificationFull) (trustStores : List String) (trustedIdentities : List String)",
		ret:    "Option GoLite.Err", retOpt: []bool{true},
		optVars: []string{"err", "verificationLevel"},
		subst:   c09Subst(nil),
		callSubst: map[string]string{
			"signatureVerification.GetVerificationLevel": "GetVerificationLevel signatureVerification.toSignatureVerification",
			"validateTrustedIdentities":                  "validateTrustedIdentities parseDN",
		},
	},
	{
		file: c09OCI, fn: "validateRegistryScopeFormat", leanName: "validateRegistryScopeFormat",
		params: "(scope : String)", ret: "Option GoLite.Err", retOpt: []bool{true},
		subst:     c09Subst(nil),
		callSubst: map[string]string{"len": "strings.Len"}, // every len() of this function is taken of a string
	},
	{
		file: c09OCI, fn: "validateRegistryScopes", leanName: "validateRegistryScopes",
		params: "(policyDoc : Option OCIDocument)", ret: "Option GoLite.Err", retOpt: []bool{true},
		optVars: []string{"err", "policyDoc"},
		subst:   c09Subst(nil),
	},
	{
		file: c09OCI, recv: "OCIDocument", fn: "Validate", recvName: "policyDoc", leanName: "OCIDocument.Validate",
		params: "(parseDN : String → GoLite.Map String String × Option GoLite.Err) (policyDoc : Option OCIDocument)",
		ret:    "Option GoLite.Err", retOpt: []bool{true},
		optVars: []string{"err", "policyDoc"},
		subst:   c09Subst(nil),
		callSubst: map[string]string{
			"validatePolicyCore": "validatePolicyCore parseDN",
			"policyNames.Add!":   "set.Set.Add",
		},
	},
	{
		file: c09Blob, recv: "BlobDocument", fn: "Validate", recvName: "policyDoc", leanName: "BlobDocument.Validate",
		params: "(parseDN : String → GoLite.Map String String × Option GoLite.Err) (policyDoc : Option BlobDocument)",
		ret:    "Option GoLite.Err", retOpt: []bool{true},
		optVars: []string{"err", "policyDoc"},
		subst:   c09Subst(nil),
		callSubst: map[string]string{
			"validatePolicyCore": "validatePolicyCore parseDN",
			"policyNames.Add!":   "set.Set.Add",
		},
	},
}

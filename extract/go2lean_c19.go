package main

// Translated-source tie of C19 (docs/TIE_BRIEF.md): the decision code of registry/repository.go.
// The content store (Predecessors, Exists, Push, content.FetchAll), JSON decoding, oras.PushBytes
// and oras.PackManifest are oracles: fields of the world value `w` (Src/TypesC19.lean).

func init() {
	families = append(families, family{"SrcC19", func() string {
		return g2lFile("registry", g2lDecls("registry/repository.go", []string{"notationEmptyConfigDesc"}),
			srcC19, "NotationModel.Src.TypesC19")
	}})
}

const c19File = "registry/repository.go"

var c19Calls = map[string]string{
	"target.Predecessors": "w.Predecessors", "content.FetchAll": "w.FetchAll", "json.Unmarshal": "w.Unmarshal",
	"assert:registry.Repository": "w.asRepository", "c.getSignatureBlobDesc": "getSignatureBlobDesc w c",
	"oras.PushBytes": "w.PushBytes", "c.uploadSignatureManifest": "uploadSignatureManifest w c",
	"pushNotationManifestConfig": "pushNotationManifestConfig w", "oras.PackManifest": "w.PackManifest",
	"assert:registry.ReferrerLister": "w.asReferrerLister", "signatureReferrers": "signatureReferrers w",
	"pusher.Exists": "w.Exists", "pusher.Push": "w.Push", "bytes.NewReader": "id", "errors.Is": "GoLite.errIs",
}

var srcC19 = []*g2lTarget{
	{
		// the loop over the predecessors; elements of `predecessors` are descriptor VALUES (rangeCopies)
		file: c19File, fn: "signatureReferrers", leanName: "signatureReferrers",
		params:      "(w : World) (target : Via) (desc : ocispec.Descriptor)",
		ret:         "List ocispec.Descriptor × Option GoLite.Err",
		retOpt:      []bool{false, true},
		optVars:     []string{"err"},
		dropArgs:    []string{"ctx"},
		optFields:   []string{"Subject"},
		rangeCopies: true,
		outArgs:     map[string]int{"json.Unmarshal": 1},
		callSubst:   c19Calls,
	},
	{
		// `fn` is the caller's callback; the remote branch (registry.ReferrerLister) is an oracle
		file: c19File, recv: "repositoryClient", fn: "ListSignatures", recvName: "c", leanName: "ListSignatures",
		params:     "(w : World) (c : repositoryClient) (desc : ocispec.Descriptor) (fn : List ocispec.Descriptor → Option GoLite.Err)",
		ret:        "Option GoLite.Err",
		retOpt:     []bool{true},
		optVars:    []string{"err"},
		dropArgs:   []string{"ctx"},
		wrapErrors: true,
		callSubst:  c19Calls,
	},
	{
		file: c19File, recv: "repositoryClient", fn: "getSignatureBlobDesc", recvName: "c", leanName: "getSignatureBlobDesc",
		params:    "(w : World) (c : repositoryClient) (sigManifestDesc : ocispec.Descriptor)",
		ret:       "ocispec.Descriptor × Option GoLite.Err",
		retOpt:    []bool{false, true},
		optVars:   []string{"err"},
		dropArgs:  []string{"ctx"},
		intLen:    true,
		outArgs:   map[string]int{"json.Unmarshal": 1},
		callSubst: c19Calls,
	},
	{
		file: c19File, recv: "repositoryClient", fn: "FetchSignatureBlob", recvName: "c", leanName: "FetchSignatureBlob",
		params:    "(w : World) (c : repositoryClient) (desc : ocispec.Descriptor)",
		ret:       "Option Bytes × ocispec.Descriptor × Option GoLite.Err",
		retOpt:    []bool{true, false, true},
		optVars:   []string{"err"},
		dropArgs:  []string{"ctx"},
		callSubst: c19Calls,
	},
	{
		file: c19File, fn: "pushNotationManifestConfig", leanName: "pushNotationManifestConfig",
		params:     "(w : World) (pusher : Via)",
		ret:        "ocispec.Descriptor × Option GoLite.Err",
		retOpt:     []bool{false, true},
		optVars:    []string{"err"},
		dropArgs:   []string{"ctx"},
		wrapErrors: true,
		callSubst:  c19Calls,
	},
	{
		file: c19File, recv: "repositoryClient", fn: "uploadSignatureManifest", recvName: "c", leanName: "uploadSignatureManifest",
		params:     "(w : World) (c : repositoryClient) (subject blobDesc : ocispec.Descriptor) (annotations : GoLite.Map String String)",
		ret:        "ocispec.Descriptor × Option GoLite.Err",
		retOpt:     []bool{false, true},
		optVars:    []string{"err"},
		dropArgs:   []string{"ctx"},
		optFields:  []string{"Subject", "ConfigDescriptor"},
		wrapErrors: true,
		callSubst:  c19Calls,
	},
	{
		file: c19File, recv: "repositoryClient", fn: "PushSignature", recvName: "c", leanName: "PushSignature",
		params:    "(w : World) (c : repositoryClient) (mediaType : String) (blob : Bytes) (subject : ocispec.Descriptor) (annotations : GoLite.Map String String)",
		ret:       "ocispec.Descriptor × ocispec.Descriptor × Option GoLite.Err",
		retOpt:    []bool{false, false, true},
		optVars:   []string{"err"},
		dropArgs:  []string{"ctx"},
		callSubst: c19Calls,
	},
}

package main

import (
	"fmt"
	"go/ast"
	"go/token"
	"path/filepath"
	"reflect"
	"strconv"
	"strings"
)

// C18 - facts about the plugin signer: the codec switch tables of plugin/proto/algorithm.go
// (wire constants resolved through notation-plugin-framework-go), the `algorithms` map of
// signer/plugin.go, the payload media type, the JSON tags of envelope.Payload, the fields kept
// by SanitizeTargetArtifact, and the shape of areUnknownAttributesAdded (looked-up key, list
// of deleted "known" descriptor keys). That the type assertion is the checked form and that duplicate
// member names are refused is no longer a syntactic fact: it is proved from the translated source
// (go2lean_c18.go, Props/C18.lean section Tie).
func init() { families = append(families, family{"C18", genC18}) }

func c18Pairs(ps [][2]string) string {
	q := make([]string, len(ps))
	for i, p := range ps {
		q[i] = "(" + leanStr(p[0]) + ", " + leanStr(p[1]) + ")"
	}
	return "[" + strings.Join(q, ", ") + "]"
}

type c18Spec struct {
	typ  string
	size string
	wire string
}

func c18Specs(ps []c18Spec, specFirst bool) string {
	q := make([]string, len(ps))
	for i, p := range ps {
		if specFirst {
			q[i] = fmt.Sprintf("((%s, %s), %s)", leanStr(p.typ), p.size, leanStr(p.wire))
		} else {
			q[i] = fmt.Sprintf("(%s, (%s, %s))", leanStr(p.wire), leanStr(p.typ), p.size)
		}
	}
	return "[" + strings.Join(q, ", ") + "]"
}

// c18Switch returns the top-level switch statement of a function body.
func c18Switch(file string, fd *ast.FuncDecl) *ast.SwitchStmt {
	for _, st := range fd.Body.List {
		if sw, ok := st.(*ast.SwitchStmt); ok {
			return sw
		}
	}
	fail("%s: %s has no switch statement", file, fd.Name.Name)
	return nil
}

func c18FirstReturn(file string, body []ast.Stmt) ast.Expr {
	for _, st := range body {
		if r, ok := st.(*ast.ReturnStmt); ok && len(r.Results) > 0 {
			return r.Results[0]
		}
	}
	fail("%s: case clause without a return", file)
	return nil
}

func genC18() string {
	var b strings.Builder
	fw := parseAbs(filepath.Join(frameworkDir(), "plugin", "algorithm.go"))
	wire := consts(fw)
	resolve := func(where string, e ast.Expr) string {
		t := exprText(e)
		name := strings.TrimPrefix(t, "plugin.")
		v, ok := wire[name]
		if !ok || name == t {
			fail("%s: cannot resolve %s to a constant of notation-plugin-framework-go/plugin/algorithm.go", where, t)
		}
		return v
	}
	trim := func(where, prefix string, e ast.Expr) string {
		t := exprText(e)
		if !strings.HasPrefix(t, prefix) {
			fail("%s: expected %s…, found %s", where, prefix, t)
		}
		return strings.TrimPrefix(t, prefix)
	}

	const af = "plugin/proto/algorithm.go"
	f := parseFile(af)

	// nested switch (k.Type / k.Size) -> returned constant
	nested := func(fn string) []c18Spec {
		fd := mustFunc(f, af, "", fn)
		sw := c18Switch(af, fd)
		if exprText(sw.Tag) != "k.Type" {
			fail("%s: %s does not switch on k.Type", af, fn)
		}
		var out []c18Spec
		for _, c := range sw.Body.List {
			cc := c.(*ast.CaseClause)
			if len(cc.List) != 1 {
				fail("%s: %s: unexpected case list", af, fn)
			}
			typ := trim(af+":"+fn, "signature.KeyType", cc.List[0])
			var inner *ast.SwitchStmt
			for _, st := range cc.Body {
				if s, ok := st.(*ast.SwitchStmt); ok {
					inner = s
				}
			}
			if inner == nil || exprText(inner.Tag) != "k.Size" {
				fail("%s: %s: case %s has no switch on k.Size", af, fn, typ)
			}
			for _, ic := range inner.Body.List {
				icc := ic.(*ast.CaseClause)
				for _, sz := range icc.List {
					bl, ok := sz.(*ast.BasicLit)
					if !ok || bl.Kind != token.INT {
						fail("%s: %s: non-literal size", af, fn)
					}
					out = append(out, c18Spec{typ, bl.Value, resolve(af+":"+fn, c18FirstReturn(af, icc.Body))})
				}
			}
		}
		return out
	}
	enc := nested("EncodeKeySpec")
	hash := nested("HashAlgorithmFromKeySpec")

	// DecodeKeySpec: switch k { case plugin.X: keySpec.Size = n; keySpec.Type = signature.KeyTypeT }
	var dec []c18Spec
	{
		fd := mustFunc(f, af, "", "DecodeKeySpec")
		sw := c18Switch(af, fd)
		for _, c := range sw.Body.List {
			cc := c.(*ast.CaseClause)
			if cc.List == nil {
				continue // default: error
			}
			size, typ := "", ""
			for _, st := range cc.Body {
				as, ok := st.(*ast.AssignStmt)
				if !ok || len(as.Lhs) != 1 {
					continue
				}
				switch exprText(as.Lhs[0]) {
				case "keySpec.Size":
					size = exprText(as.Rhs[0])
				case "keySpec.Type":
					typ = trim(af+":DecodeKeySpec", "signature.KeyType", as.Rhs[0])
				}
			}
			if _, err := strconv.Atoi(size); err != nil || typ == "" {
				fail("%s: DecodeKeySpec: case without literal Size/Type assignments", af)
			}
			for _, k := range cc.List {
				dec = append(dec, c18Spec{typ, size, resolve(af+":DecodeKeySpec", k)})
			}
		}
	}

	// signing algorithm codecs
	var encAlg, decAlg [][2]string
	{
		fd := mustFunc(f, af, "", "EncodeSigningAlgorithm")
		for _, c := range c18Switch(af, fd).Body.List {
			cc := c.(*ast.CaseClause)
			for _, k := range cc.List {
				encAlg = append(encAlg, [2]string{trim(af, "signature.Algorithm", k), resolve(af, c18FirstReturn(af, cc.Body))})
			}
		}
		fd = mustFunc(f, af, "", "DecodeSigningAlgorithm")
		for _, c := range c18Switch(af, fd).Body.List {
			cc := c.(*ast.CaseClause)
			for _, k := range cc.List {
				decAlg = append(decAlg, [2]string{resolve(af, k), trim(af, "signature.Algorithm", c18FirstReturn(af, cc.Body))})
			}
		}
	}
	fmt.Fprintf(&b, "/-- `EncodeKeySpec` of %s: ((key type, size), wire name) per case -/\ndef c18EncodeKeySpec : List ((String × Nat) × String) :=\n  %s\n\n", af, c18Specs(enc, true))
	fmt.Fprintf(&b, "/-- `DecodeKeySpec`: (wire name, (key type, size)) per case; every other name is an error -/\ndef c18DecodeKeySpec : List (String × (String × Nat)) :=\n  %s\n\n", c18Specs(dec, false))
	fmt.Fprintf(&b, "/-- `HashAlgorithmFromKeySpec`: ((key type, size), wire hash name) per case -/\ndef c18HashFromKeySpec : List ((String × Nat) × String) :=\n  %s\n\n", c18Specs(hash, true))
	fmt.Fprintf(&b, "/-- `EncodeSigningAlgorithm`: (signature.Algorithm…, wire name) -/\ndef c18EncodeSigAlg : List (String × String) :=\n  %s\n\n", c18Pairs(encAlg))
	fmt.Fprintf(&b, "/-- `DecodeSigningAlgorithm`: (wire name, signature.Algorithm…) -/\ndef c18DecodeSigAlg : List (String × String) :=\n  %s\n\n", c18Pairs(decAlg))

	// the wire constants of the framework the translated codecs mention by name
	var wc [][2]string
	for _, n := range []string{"KeySpecRSA2048", "KeySpecRSA3072", "KeySpecRSA4096", "KeySpecEC256", "KeySpecEC384", "KeySpecEC521",
		"HashAlgorithmSHA256", "HashAlgorithmSHA384", "HashAlgorithmSHA512"} {
		v, ok := wire[n]
		if !ok {
			fail("notation-plugin-framework-go/plugin/algorithm.go: constant %s not found", n)
		}
		wc = append(wc, [2]string{n, v})
	}
	fmt.Fprintf(&b, "/-- constants of notation-plugin-framework-go/plugin/algorithm.go: (name, value) -/\ndef c18WireConstants : List (String × String) :=\n  %s\n\n", c18Pairs(wc))

	// signer/plugin.go
	const pf = "signer/plugin.go"
	p := parseFile(pf)
	algs := findVar(p, "algorithms")
	cl, ok := algs.(*ast.CompositeLit)
	if algs == nil || !ok {
		fail("%s: map literal `algorithms` not found", pf)
	}
	var am [][2]string
	for _, el := range cl.Elts {
		kv, ok := el.(*ast.KeyValueExpr)
		if !ok {
			fail("%s: algorithms: unexpected element", pf)
		}
		am = append(am, [2]string{trim(pf, "crypto.", kv.Key), trim(pf, "digest.", kv.Value)})
	}
	fmt.Fprintf(&b, "/-- the `algorithms` map of %s: (crypto hash, digest algorithm) -/\ndef c18DigestAlgorithms : List (String × String) :=\n  %s\n\n", pf, c18Pairs(am))

	// generateSignatureEnvelope: the checks on the plugin's answer, in source order
	gse := mustFunc(p, pf, "PluginSigner", "generateSignatureEnvelope")
	var order []string
	for _, call := range callsIn(gse.Body, "signature.ParseEnvelope", "sigEnv.Verify", "envelope.ValidatePayloadContentType",
		"json.Unmarshal", "findDuplicateKey", "isPayloadDescriptorValid", "areUnknownAttributesAdded") {
		order = append(order, callName(call))
	}
	fmt.Fprintf(&b, "/-- the checks generateSignatureEnvelope runs on the plugin's answer, in source order -/\ndef c18EnvelopeChecks : List String := %s\n\n", leanStrList(order))
	// findDuplicateKey: what each delimiter does to the scanner's stack (the token loop itself is outside
	// the Go-to-Lean translator's subset: an unbounded read-until-error loop over a stateful decoder and
	// updates through a pointer into the last slice element)
	fdk := mustFunc(p, pf, "", "findDuplicateKey")
	var delimSwitch *ast.SwitchStmt
	ast.Inspect(fdk.Body, func(n ast.Node) bool {
		if sw, ok := n.(*ast.SwitchStmt); ok && sw.Tag != nil && delimSwitch == nil {
			delimSwitch = sw
		}
		return true
	})
	if delimSwitch == nil {
		fail("%s: findDuplicateKey has no switch over the delimiter", pf)
	}
	norm := func(e ast.Expr) string { return strings.ReplaceAll(exprText(e), " ", "") }
	var rows []string
	for _, cl := range delimSwitch.Body.List {
		cc := cl.(*ast.CaseClause)
		var acts []string
		for _, st := range cc.Body {
			act := "?" + fmt.Sprintf("%T", st)
			switch x := st.(type) {
			case *ast.AssignStmt:
				if len(x.Lhs) == 1 && len(x.Rhs) == 1 && exprText(x.Lhs[0]) == "stack" {
					switch r := x.Rhs[0].(type) {
					case *ast.CallExpr:
						if callName(r) == "append" && len(r.Args) == 2 && exprText(r.Args[0]) == "stack" {
							act = "?append"
							if ue, ok := r.Args[1].(*ast.UnaryExpr); ok && ue.Op == token.AND {
								if lit, ok := ue.X.(*ast.CompositeLit); ok && exprText(lit.Type) == "frame" {
									hasKeys, expect := false, false
									for _, el := range lit.Elts {
										if kv, ok := el.(*ast.KeyValueExpr); ok {
											switch exprText(kv.Key) {
											case "keys":
												_, isLit := kv.Value.(*ast.CompositeLit)
												hasKeys = isLit
											case "expectKey":
												expect = exprText(kv.Value) == "true"
											}
										}
									}
									switch {
									case hasKeys && expect:
										act = "pushObject"
									case !hasKeys && !expect && len(lit.Elts) == 0:
										act = "pushArray"
									}
								}
							}
						}
					case *ast.SliceExpr:
						if exprText(r.X) == "stack" && r.Low == nil && r.High != nil && norm(r.High) == "len(stack)-1" {
							act = "pop"
						}
					}
				}
			case *ast.IfStmt:
				if x.Else == nil && x.Init == nil && len(x.Body.List) == 1 {
					if as, ok := x.Body.List[0].(*ast.AssignStmt); ok && len(as.Lhs) == 1 && len(as.Rhs) == 1 &&
						norm(as.Lhs[0]) == "stack[len(stack)-1].expectKey" && exprText(as.Rhs[0]) == "true" {
						act = "?rearm:" + norm(x.Cond)
						if c := norm(x.Cond); c == "len(stack)>0&&stack[len(stack)-1].keys!=nil" {
							act = "rearm"
						}
					}
				}
			}
			acts = append(acts, act)
		}
		labels := []string{"default"}
		if cc.List != nil {
			labels = nil
			for _, l := range cc.List {
				bl, ok := l.(*ast.BasicLit)
				if !ok || bl.Kind != token.CHAR {
					fail("%s: findDuplicateKey: delimiter case %s is not a character literal", pf, exprText(l))
				}
				ch, _, _, err := strconv.UnquoteChar(bl.Value[1:len(bl.Value)-1], '\'')
				if err != nil {
					fail("%s: findDuplicateKey: %v", pf, err)
				}
				labels = append(labels, string(ch))
			}
		}
		for _, l := range labels {
			rows = append(rows, "("+leanStr(l)+", "+leanStrList(acts)+")")
		}
	}
	fmt.Fprintf(&b, "/-- findDuplicateKey: per case of the switch over the delimiter token, what is done to the stack\n(`pushObject`, `pushArray`, `pop`, `rearm` = the enclosing object expects a member name again) -/\ndef c18DupScannerDelims : List (String × List String) :=\n  [%s]\n\n", strings.Join(rows, ", "))

	// areUnknownAttributesAdded
	fd := mustFunc(p, pf, "", "areUnknownAttributesAdded")
	var known []string
	topVar, descVar, lookedUp, deletedTop := "", "", "", ""
	for _, st := range fd.Body.List {
		switch s := st.(type) {
		case *ast.AssignStmt:
			if len(s.Rhs) == 1 {
				if ta, ok := s.Rhs[0].(*ast.TypeAssertExpr); ok {
					ix, ok := ta.X.(*ast.IndexExpr)
					if !ok {
						fail("%s: areUnknownAttributesAdded: the asserted value is not a map index", pf)
					}
					topVar = exprText(ix.X)
					lookedUp = c09StrLit(pf, ix.Index)
					descVar = exprText(s.Lhs[0])
					if t := nodeText(ta.Type); t != "map[string]interface{}" && t != "map[string]any" {
						fail("%s: areUnknownAttributesAdded: unexpected asserted type %s", pf, nodeText(ta.Type))
					}
				}
			}
		case *ast.ExprStmt:
			if call, ok := s.X.(*ast.CallExpr); ok && callName(call) == "delete" && len(call.Args) == 2 {
				switch exprText(call.Args[0]) {
				case descVar:
					known = append(known, c09StrLit(pf, call.Args[1]))
				case topVar:
					deletedTop = c09StrLit(pf, call.Args[1])
				}
			}
		}
	}
	if lookedUp == "" {
		fail("%s: areUnknownAttributesAdded: no type assertion on a map index found", pf)
	}
	if deletedTop != lookedUp {
		fail("%s: areUnknownAttributesAdded: looks up %q but deletes %q", pf, lookedUp, deletedTop)
	}
	fmt.Fprintf(&b, "/-- the top-level key areUnknownAttributesAdded looks up (and deletes) -/\ndef c18TargetKey : String := %s\n\n", leanStr(lookedUp))
	fmt.Fprintf(&b, "/-- the descriptor keys areUnknownAttributesAdded deletes as known, in source order -/\ndef c18KnownDescriptorKeys : List String := %s\n\n", leanStrList(known))

	// internal/envelope/envelope.go
	const ef = "internal/envelope/envelope.go"
	e := parseFile(ef)
	mt, ok := consts(e)["MediaTypePayloadV1"]
	if !ok {
		fail("%s: constant MediaTypePayloadV1 not found", ef)
	}
	fmt.Fprintf(&b, "/-- `MediaTypePayloadV1` of %s -/\ndef c18MediaTypePayloadV1 : String := %s\n\n", ef, leanStr(mt))
	var tags []string
	found := false
	ast.Inspect(e, func(n ast.Node) bool {
		ts, ok := n.(*ast.TypeSpec)
		if !ok || ts.Name.Name != "Payload" {
			return true
		}
		st, ok := ts.Type.(*ast.StructType)
		if !ok {
			return true
		}
		found = true
		for _, fl := range st.Fields.List {
			tag := ""
			if fl.Tag != nil {
				raw, _ := strconv.Unquote(fl.Tag.Value)
				tag = strings.Split(reflect.StructTag(raw).Get("json"), ",")[0]
			}
			if tag == "" && len(fl.Names) > 0 {
				tag = fl.Names[0].Name
			}
			tags = append(tags, tag)
		}
		return false
	})
	if !found {
		fail("%s: struct Payload not found", ef)
	}
	fmt.Fprintf(&b, "/-- JSON names of the fields of `envelope.Payload` -/\ndef c18PayloadFields : List String := %s\n\n", leanStrList(tags))
	san := mustFunc(e, ef, "", "SanitizeTargetArtifact")
	var kept []string
	ast.Inspect(san.Body, func(n ast.Node) bool {
		if cl, ok := n.(*ast.CompositeLit); ok {
			for _, el := range cl.Elts {
				if kv, ok := el.(*ast.KeyValueExpr); ok {
					kept = append(kept, exprText(kv.Key))
				}
			}
			return false
		}
		return true
	})
	if len(kept) == 0 {
		fail("%s: SanitizeTargetArtifact builds no keyed literal", ef)
	}
	fmt.Fprintf(&b, "/-- the descriptor fields SanitizeTargetArtifact keeps -/\ndef c18SanitizedFields : List String := %s\n", leanStrList(kept))
	return b.String()
}

// nodeText renders a type expression (map[string]interface{}, map[string]any).
func nodeText(e ast.Expr) string {
	switch x := e.(type) {
	case *ast.MapType:
		return "map[" + nodeText(x.Key) + "]" + nodeText(x.Value)
	case *ast.InterfaceType:
		return "interface{}"
	case *ast.Ident:
		return x.Name
	}
	return exprText(e)
}

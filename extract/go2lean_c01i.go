package main

// C01: `verifyIntegrity` (verifier/verifier.go) translated on every run into
// lean/NotationModel/Generated/SrcC01i.lean: envelope parsing and the envelope's own verification
// (notation-core-go) are oracles (Src/TypesC01i.lean); the payload content-type rule is the
// translated `envelope.ValidatePayloadContentType` of Generated/SrcC18b.lean.

func init() {
	families = append(families, family{"SrcC01i", func() string {
		return g2lFile("c01i", "", srcC01i, "NotationModel.Src.TypesC01i", "NotationModel.Generated.SrcLevels",
			"NotationModel.Generated.SrcC18b")
	}})
}

var srcC01i = []*g2lTarget{
	{
		file: "verifier/verifier.go", fn: "verifyIntegrity", leanName: "verifyIntegrity",
		params:    "(env : c01i.Env) (sigBlob : signer.Bytes) (envelopeMediaType : String) (outcome : c01i.VerificationOutcome)",
		ret:       "Option signature.EnvelopeContent × «notation».ValidationResult",
		retOpt:    []bool{true, false},
		optFields: []string{"Error"},
		mapFields: []string{"Enforcement"},
		optVars:   []string{"err", "envContent", "sigEnv"},
		zeroFill:  true,
		callSubst: map[string]string{
			"signature.ParseEnvelope":                          "env.ParseEnvelope",
			"envelope.ValidatePayloadContentType":              "envelope.ValidatePayloadContentType",
			"typeIs:*signature.SignatureEnvelopeNotFoundError": "c01i.isEnvelopeNotFound",
			"typeIs:*signature.InvalidSignatureError":          "c01i.isInvalidSignature",
			"typeIs:*signature.SignatureIntegrityError":        "c01i.isIntegrityError",
		},
		derefArgs: []string{"envelope.ValidatePayloadContentType"},
	},
}

package main

// Translated-source tie of C16 (docs/TIE_BRIEF.md): the functions of package plugin that decide
// which plugin names are acceptable and which path a name leads to.

func init() {
	families = append(families, family{"SrcC16", func() string {
		return g2lFile("plugin", "", srcC16, "NotationModel.Src.TypesC16")
	}})
}

var srcC16 = []*g2lTarget{
	{
		file: "plugin/manager.go", fn: "validatePluginName", leanName: "validatePluginName",
		params: "(name : String)",
		ret:    "Option GoLite.Err",
		retOpt: []bool{true},
	},
	{
		file: "plugin/manager_unix.go", fn: "binName", leanName: "binName",
		params: "(name : String)",
		ret:    "String",
		retOpt: []bool{false},
	},
	{
		file: "plugin/manager_unix.go", fn: "parsePluginName", leanName: "parsePluginName",
		params: "(fileName : String)",
		ret:    "String × Option GoLite.Err",
		retOpt: []bool{false, true},
	},
	{
		// the file system and the lexical join are oracles: `m.pluginFS.SysPath` is a field of the
		// manager value, `path.Join` and `NewCLIPlugin` (os.Stat + regular-file test) are parameters
		file: "plugin/manager.go", recv: "CLIManager", fn: "Get", recvName: "m", leanName: "CLIManager.Get",
		params:    "(m : CLIManager) (w : World) (ctx : Unit) (name : String)",
		ret:       "Option CLIPlugin × Option GoLite.Err",
		retOpt:    []bool{true, true},
		optVars:   []string{"err"},
		callSubst: map[string]string{"path.Join": "w.pathJoin", "NewCLIPlugin": "w.NewCLIPlugin"},
	},
	{
		file: "plugin/manager.go", recv: "CLIManager", fn: "Uninstall", recvName: "m", leanName: "CLIManager.Uninstall",
		params:    "(m : CLIManager) (w : World) (ctx : Unit) (name : String)",
		ret:       "Option GoLite.Err",
		retOpt:    []bool{true},
		optVars:   []string{"err"},
		callSubst: map[string]string{"os.Stat": "w.Stat", "os.RemoveAll": "w.RemoveAll"},
	},
}

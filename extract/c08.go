package main

import (
	"fmt"
	"go/ast"
	"go/token"
	"strconv"
	"strings"
)

func init() { families = append(families, family{"C08", genC08}) }

// c08LeanChars renders a Go string as a Lean `List Char` literal.
func c08LeanChars(s string) string {
	var items []string
	for _, r := range s {
		switch {
		case r == '\'':
			items = append(items, `'\''`)
		case r == '\\':
			items = append(items, `'\\'`)
		case r < 0x20 || r == 0x7f:
			items = append(items, fmt.Sprintf(`'\x%02x'`, r))
		default:
			items = append(items, "'"+string(r)+"'")
		}
	}
	return "[" + strings.Join(items, ", ") + "]"
}

// c08LitCall renders a call as name(args) where every argument that is not a literal is "_",
// so that renaming a variable does not change the fact.
func c08LitCall(c *ast.CallExpr) string {
	var args []string
	for _, a := range c.Args {
		if bl, ok := a.(*ast.BasicLit); ok {
			args = append(args, bl.Value)
		} else {
			args = append(args, "_")
		}
	}
	return callName(c) + "(" + strings.Join(args, ",") + ")"
}

// genC08: what the repository path of a reference is made of - the two scope regexes, the way
// a scope is cut into domain and repository, the way the path is cut from the reference, the
// wildcard constant.
func genC08() string {
	var b strings.Builder
	const ociFile = "verifier/trustpolicy/oci.go"
	of := parseFile(ociFile)

	// --- validateRegistryScopeFormat: regexes and cut ---
	vf := mustFunc(of, ociFile, "", "validateRegistryScopeFormat")
	regexes := map[string]string{}
	var cutCall string
	ast.Inspect(vf.Body, func(n ast.Node) bool {
		x, ok := n.(*ast.AssignStmt)
		if !ok || len(x.Rhs) != 1 {
			return true
		}
		c, ok := x.Rhs[0].(*ast.CallExpr)
		if !ok {
			return true
		}
		switch callName(c) {
		case "regexp.MustCompile":
			if len(x.Lhs) == 1 && len(c.Args) == 1 {
				if bl, ok := c.Args[0].(*ast.BasicLit); ok && bl.Kind == token.STRING {
					v, err := strconv.Unquote(bl.Value)
					if err != nil {
						fail("%s: cannot unquote regex %s", ociFile, bl.Value)
					}
					regexes[exprText(x.Lhs[0])] = v
				}
			}
		case "strings.Cut":
			cutCall = c08LitCall(c)
		}
		return true
	})
	for _, name := range []string{"domainRegexp", "repositoryRegexp"} {
		if _, ok := regexes[name]; !ok {
			fail("%s: validateRegistryScopeFormat: %s := regexp.MustCompile(...) not found", ociFile, name)
		}
	}
	if cutCall == "" {
		fail("%s: validateRegistryScopeFormat: strings.Cut call not found", ociFile)
	}
	fmt.Fprintf(&b, "/-- `domainRegexp` of `validateRegistryScopeFormat` (%s) -/\ndef c08DomainRegexp : List Char := %s\n\n", ociFile, c08LeanChars(regexes["domainRegexp"]))
	fmt.Fprintf(&b, "/-- `repositoryRegexp` of `validateRegistryScopeFormat` -/\ndef c08RepositoryRegexp : List Char := %s\n\n", c08LeanChars(regexes["repositoryRegexp"]))
	fmt.Fprintf(&b, "/-- how a scope is cut into domain and repository (non-literal arguments shown as _) -/\ndef c08ScopeCut : String := %s\n\n", leanStr(cutCall))

	// --- getArtifactPathFromReference: the strings.* call that locates the cut ---
	gp := mustFunc(of, ociFile, "", "getArtifactPathFromReference")
	var calls []string
	for _, c := range callsIn(gp.Body, "strings.") {
		calls = append(calls, c08LitCall(c))
	}
	if len(calls) == 0 {
		fail("%s: getArtifactPathFromReference: no strings.* call found", ociFile)
	}
	fmt.Fprintf(&b, "/-- `strings` calls of `getArtifactPathFromReference` (non-literal arguments shown as _) -/\ndef c08RefSplit : List String := %s\n\n", leanStrList(calls))

	// --- wildcard constant ---
	tf := parseFile("internal/trustpolicy/trustpolicy.go")
	wc, ok := consts(tf)["Wildcard"]
	if !ok {
		fail("internal/trustpolicy/trustpolicy.go: constant Wildcard not found")
	}
	fmt.Fprintf(&b, "/-- `trustpolicy.Wildcard` -/\ndef c08Wildcard : List Char := %s\n", c08LeanChars(wc))
	return b.String()
}

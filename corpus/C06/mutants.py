#!/usr/bin/env python3
"""Mutation self-test of C06 (builder's own mutants; the seeded ones live in /verif/seeded/C06-*).
usage (inside a private copy of /verif):  python3 corpus/C06/mutants.py [name-prefix ...]
Applies each textual mutant to a scratch worktree of /repo, runs ./check C06 against it, prints one line."""
import subprocess, sys, os
V_ROOT = os.path.dirname(os.path.dirname(os.path.dirname(os.path.abspath(__file__))))
MUT = '/tmp/c06-mutants-wt'
V = MUT + '/verifier/verifier.go'
H = MUT + '/verifier/helpers.go'
T = MUT + '/verifier/trustpolicy/trustpolicy.go'
SA = 'if authenticSigningTime.Before(cert.NotBefore) || authenticSigningTime.After(cert.NotAfter) {'
VERIFY_CALL = '''	tsaCertChain, err := signedToken.Verify(ctx, x509.VerifyOptions{
		CurrentTime: timestamp.Value,
		Roots:       rootCertPool,
	})
	if err != nil {
		return fmt.Errorf("failed to verify the timestamp countersignature with error: %w", err)
	}
'''
# name: (file, old, new[, text appended to the file[, (old2, new2)]])
muts = {
 'M01_expiry_reversed': (V, '!expiry.IsZero() && !time.Now().Before(expiry)', '!expiry.IsZero() && time.Now().Before(expiry)'),
 'M02_expiry_zero_check_dropped': (V, '!expiry.IsZero() && !time.Now().Before(expiry)', '!time.Now().Before(expiry)'),
 'M03_sa_after_dropped': (V, SA, 'if authenticSigningTime.Before(cert.NotBefore) {'),
 'M04_sa_uses_now': (V, 'authenticSigningTime := signerInfo.SignedAttributes.SigningTime\n', 'authenticSigningTime := time.Now()\n'),
 'M05_sa_leaf_only': (V, 'authenticSigningTime := signerInfo.SignedAttributes.SigningTime\n\tfor _, cert := range signerInfo.CertificateChain {', 'authenticSigningTime := signerInfo.SignedAttributes.SigningTime\n\tfor _, cert := range signerInfo.CertificateChain[:1] {'),
 'M06_sa_notbefore_off_by_one': (V, SA, 'if !authenticSigningTime.After(cert.NotBefore) || authenticSigningTime.After(cert.NotAfter) {'),
 'M07_expired_test_leaf_only': (V, 'var expired bool\n\t\tfor _, cert := range signerInfo.CertificateChain {', 'var expired bool\n\t\tfor _, cert := range signerInfo.CertificateChain[:1] {'),
 'M08_expired_test_reversed': (V, 'if !expired {\n\t\t\tlogger.Infof("Timestamp verification disabled', 'if expired {\n\t\t\tlogger.Infof("Timestamp verification disabled'),
 'M09_validnow_notbefore_dropped': (V, 'if timeOfVerification.Before(cert.NotBefore) {\n\t\t\t\treturn fmt.Errorf("verification time is before', 'if false {\n\t\t\t\treturn fmt.Errorf("verification time is before'),
 'M10_validnow_uses_signing_time': (V, 'if !performTimestampVerification {\n\t\tfor _, cert := range signerInfo.CertificateChain {', 'if !performTimestampVerification {\n\t\ttimeOfVerification := signerInfo.SignedAttributes.SigningTime\n\t\tfor _, cert := range signerInfo.CertificateChain {'),
 'M11_imprint_not_checked': (V, 'timestamp, err := info.Validate(signerInfo.Signature)\n\tif err != nil {\n\t\treturn fmt.Errorf("failed to get timestamp from timestamp countersignature with error: %w", err)\n\t}', 'timestamp, err := info.Validate(signerInfo.Signature)\n\tif err != nil {\n\t\ttimestamp = &tspclient.Timestamp{Value: info.GenTime, Accuracy: time.Duration(info.Accuracy.Seconds)*time.Second + time.Duration(info.Accuracy.Milliseconds)*time.Millisecond + time.Duration(info.Accuracy.Microseconds)*time.Microsecond}\n\t}'),
 'M12_bounded_after_dropped': (V, 'if !timestamp.BoundedAfter(cert.NotBefore) {', 'if false {'),
 'M13_range_skips_root': (V, '\tfor _, cert := range signerInfo.CertificateChain {\n\t\tif !timestamp.BoundedAfter', '\tfor _, cert := range signerInfo.CertificateChain[:1] {\n\t\tif !timestamp.BoundedAfter'),
 'M14_range_ignores_accuracy': (V, 'if !timestamp.BoundedBefore(cert.NotAfter) {', 'if timestamp.Value.After(cert.NotAfter) {'),
 'M15_tsa_unknown_ok': (V, '\tdefault:\n\t\t// revocationresult.ResultUnknown\n\t\treturn fmt.Errorf("timestamping certificate with subject %q revocation status is unknown", problematicCertSubject)', '\tdefault:\n\t\t// revocationresult.ResultUnknown\n\t\tlogger.Debugf("timestamping certificate with subject %q revocation status is unknown", problematicCertSubject)'),
 'M16_chain_rules_dropped': (V, 'if err := nx509.ValidateTimestampingCertChain(tsaCertChain); err != nil {', 'if err := nx509.ValidateTimestampingCertChain(tsaCertChain); err != nil && false {'),
 'M17_tsa_store_type_ca': (H, 'typeToLoad = truststore.TypeTSA', 'typeToLoad = truststore.TypeCA'),
 'M18_tsa_in_policy_first_only': (H, 'func isTSATrustStoreInPolicy(policyName string, trustStores []string) (bool, error) {\n\tfor _, trustStore := range trustStores {', 'func isTSATrustStoreInPolicy(policyName string, trustStores []string) (bool, error) {\n\tfor _, trustStore := range trustStores[:1] {'),
 'M19_tsa_chain_verified_at_now': (V, 'CurrentTime: timestamp.Value,', 'CurrentTime: timeOfVerification,'),
 'M20_revocation_error_ignored': (V, 'return fmt.Errorf("failed to check timestamping certificate chain revocation with error: %w", err)', 'return nil'),
 'M21_unset_option_means_no_ts': (V, 'if performTimestampVerification &&\n\t\tsignatureVerification.VerifyTimestamp == trustpolicy.OptionAfterCertExpiry {', 'if signatureVerification.VerifyTimestamp == "" {\n\t\tperformTimestampVerification = false\n\t}\n\tif performTimestampVerification &&\n\t\tsignatureVerification.VerifyTimestamp == trustpolicy.OptionAfterCertExpiry {'),
 'M22_expired_uses_notbefore': (V, 'if timeOfVerification.After(cert.NotAfter) {\n\t\t\t\texpired = true', 'if timeOfVerification.After(cert.NotBefore) {\n\t\t\t\texpired = true'),
 'M23_x509_uses_sa_branch_too': (V, 'if signerInfo.SignedAttributes.SigningScheme == signature.SigningSchemeX509 {\n\t\tlogger.Debug("Under signing scheme notary.x509...")', 'if signerInfo.SignedAttributes.SigningScheme == signature.SigningSchemeX509 && len(signerInfo.UnsignedAttributes.TimestampSignature) > 0 {\n\t\tlogger.Debug("Under signing scheme notary.x509...")'),
 'M24_empty_tsa_store_tolerated(equivalent)': (V, 'if len(trustTSACerts) == 0 {\n\t\treturn errors.New("no trusted TSA certificate found in trust store")\n\t}', ''),
 'M25_range_waived_for_unexpired': (V, 'if !timestamp.BoundedBefore(cert.NotAfter) {', 'if !timestamp.BoundedBefore(cert.NotAfter) && timeOfVerification.After(cert.NotAfter) {'),
 # state kept across calls
 'M26_timestamp_clock_frozen_at_first_use': (V, '\ttimeOfVerification := time.Now()\n\tif performTimestampVerification &&', '\tfrozenClockOnce.Do(func() { frozenClock = time.Now() })\n\ttimeOfVerification := frozenClock\n\tif performTimestampVerification &&', 'var frozenClock time.Time\nvar frozenClockOnce sync.Once\n'),
 'M27_authts_result_cached_per_leaf': (V, '\tsignerInfo := outcome.EnvelopeContent.SignerInfo\n\tperformTimestampVerification := true\n', '\tsignerInfo := outcome.EnvelopeContent.SignerInfo\n\tcacheKey := string(signerInfo.CertificateChain[0].Raw) + policyName + string(signatureVerification.VerifyTimestamp) + strings.Join(trustStores, ",")\n\tif ok, hit := validNowCache.Load(cacheKey); hit && ok.(bool) && len(signerInfo.UnsignedAttributes.TimestampSignature) == 0 {\n\t\treturn nil\n\t}\n\tperformTimestampVerification := true\n', 'var validNowCache sync.Map\n', ('\t\t// success\n\t\treturn nil\n\t}\n\n\t// Performing timestamp verification', '\t\t// success\n\t\tvalidNowCache.Store(cacheKey, true)\n\t\treturn nil\n\t}\n\n\t// Performing timestamp verification')),
 'M28_tsa_in_policy_cached_globally': (H, 'func isTSATrustStoreInPolicy(policyName string, trustStores []string) (bool, error) {\n', 'func isTSATrustStoreInPolicy(policyName string, trustStores []string) (bool, error) {\n\tif v, ok := tsaInPolicyCache.Load(policyName); ok {\n\t\treturn v.(bool), nil\n\t}\n\tr, err := isTSATrustStoreInPolicyUncached(policyName, trustStores)\n\tif err == nil {\n\t\ttsaInPolicyCache.Store(policyName, r)\n\t}\n\treturn r, err\n}\n\nvar tsaInPolicyCache sync.Map\n\nfunc isTSATrustStoreInPolicyUncached(policyName string, trustStores []string) (bool, error) {\n', '\n'),
 'S02_tsa_certs_cached_per_store_object': (H, '\treturn loadX509TrustStoresWithType(ctx, typeToLoad, policyName, trustStores, x509TrustStore)\n}\n\nfunc loadX509TrustStoresWithType', '\tkey := fmt.Sprintf("%p|%s", x509TrustStore, strings.Join(trustStores, ","))\n\tif c, ok := tsaCertsByStore.Load(key); ok {\n\t\treturn c.([]*x509.Certificate), nil\n\t}\n\tc, err := loadX509TrustStoresWithType(ctx, typeToLoad, policyName, trustStores, x509TrustStore)\n\tif err == nil {\n\t\ttsaCertsByStore.Store(key, c)\n\t}\n\treturn c, err\n}\n\nvar tsaCertsByStore sync.Map\n\nfunc loadX509TrustStoresWithType', '\n'),
 'S03_untrusted_tsa_remembered': (V, VERIFY_CALL, '''	var tsaThumb string
	if len(signedToken.Certificates) > 0 {
		tsaThumb = string(signedToken.Certificates[0].Raw)
	}
	if _, bad := untrustedTSAs.Load(tsaThumb); bad {
		return errors.New("failed to verify the timestamp countersignature: TSA known to be untrusted")
	}
	tsaCertChain, err := signedToken.Verify(ctx, x509.VerifyOptions{
		CurrentTime: timestamp.Value,
		Roots:       rootCertPool,
	})
	if err != nil {
		untrustedTSAs.Store(tsaThumb, true)
		return fmt.Errorf("failed to verify the timestamp countersignature with error: %w", err)
	}
''', 'var untrustedTSAs sync.Map\n'),
 'S04_trusted_tsa_chain_remembered': (V, VERIFY_CALL, '''	var tsaThumb string
	if len(signedToken.Certificates) > 0 {
		tsaThumb = string(signedToken.Certificates[0].Raw)
	}
	var tsaCertChain []*x509.Certificate
	if c, ok := trustedTSAChains.Load(tsaThumb); ok {
		tsaCertChain = c.([]*x509.Certificate)
	} else {
		tsaCertChain, err = signedToken.Verify(ctx, x509.VerifyOptions{
			CurrentTime: timestamp.Value,
			Roots:       rootCertPool,
		})
		if err != nil {
			return fmt.Errorf("failed to verify the timestamp countersignature with error: %w", err)
		}
		trustedTSAChains.Store(tsaThumb, tsaCertChain)
	}
''', 'var trustedTSAChains sync.Map\n'),
 'S05_signing_trust_certs_cached': (H, '\treturn loadX509TrustStoresWithType(ctx, typeToLoad, policyName, trustStores, x509TrustStore)\n}\n\n// isCriticalFailure', '\tkey := policyName + "|" + strings.Join(trustStores, ",")\n\tif c, ok := signingTrustCerts.Load(key); ok {\n\t\treturn c.([]*x509.Certificate), nil\n\t}\n\tc, err := loadX509TrustStoresWithType(ctx, typeToLoad, policyName, trustStores, x509TrustStore)\n\tif err == nil {\n\t\tsigningTrustCerts.Store(key, c)\n\t}\n\treturn c, err\n}\n\nvar signingTrustCerts sync.Map\n\n// isCriticalFailure', '\n'),
 'S06_tsa_revocation_ok_remembered': (V, '\tcertResults, err := r.ValidateContext(ctx, revocation.ValidateContextOptions{\n\t\tCertChain: tsaCertChain,\n\t})\n\tif err != nil {\n\t\treturn fmt.Errorf("failed to check timestamping', '\tif _, ok := goodTSAs.Load(string(tsaCertChain[0].Raw)); ok {\n\t\treturn nil\n\t}\n\tcertResults, err := r.ValidateContext(ctx, revocation.ValidateContextOptions{\n\t\tCertChain: tsaCertChain,\n\t})\n\tif err != nil {\n\t\treturn fmt.Errorf("failed to check timestamping', 'var goodTSAs sync.Map\n', ('\t// success\n\tlogger.Debug("Timestamp verification: Success")', '\t// success\n\tgoodTSAs.Store(string(tsaCertChain[0].Raw), true)\n\tlogger.Debug("Timestamp verification: Success")')),
 'S07_result_count_check_removed': (V, '\tif len(certResults) != len(certChain) {', '\tif false {'),
 'S08_result_count_only_too_few': (V, '\tif len(certResults) != len(certChain) {', '\tif len(certResults) > len(certChain) {'),
 # wrong clock / wrong arguments (round 3)
 'T01_tsa_revocation_as_of_now_explicit': (V, '\t\tCertChain: tsaCertChain,\n\t})', '\t\tCertChain:            tsaCertChain,\n\t\tAuthenticSigningTime: timeOfVerification,\n\t})'),
 'T02_tsa_revocation_on_signing_chain': (V, '\t\tCertChain: tsaCertChain,\n\t})', '\t\tCertChain: signerInfo.CertificateChain,\n\t})'),
 'T03_expiry_now_rounded': (V, '!expiry.IsZero() && !time.Now().Before(expiry)', '!expiry.IsZero() && !time.Now().Round(time.Second).Before(expiry)'),
 'T04_expiry_grace_second': (V, '!expiry.IsZero() && !time.Now().Before(expiry)', '!expiry.IsZero() && !time.Now().Add(-time.Second).Before(expiry)'),
 'T05_timestamp_clock_truncated': (V, '\ttimeOfVerification := time.Now()\n\tif performTimestampVerification &&', '\ttimeOfVerification := time.Now().Truncate(time.Second)\n\tif performTimestampVerification &&'),
 'T06_timestamp_clock_rounded_up': (V, '\ttimeOfVerification := time.Now()\n\tif performTimestampVerification &&', '\ttimeOfVerification := time.Now().Truncate(time.Second).Add(time.Second)\n\tif performTimestampVerification &&'),
 'T07_signing_revocation_always_gets_signing_time': (V, '\tif outcome.EnvelopeContent.SignerInfo.SignedAttributes.SigningScheme == signature.SigningSchemeX509SigningAuthority {\n\t\tauthenticSigningTime, _ =', '\tif true {\n\t\tauthenticSigningTime =  outcome.EnvelopeContent.SignerInfo.SignedAttributes.SigningTime\n\t\t_, _ ='),
 # round 4: the TSA revocation check must not depend on the level shape; EKUs nest along the TSA path
 'U01_tsa_revocation_skipped_when_timestamp_only_logged': (V, '\tlogger.Debug("Checking timestamping certificate chain revocation...")\n', '\tif outcome.VerificationLevel.Enforcement[trustpolicy.TypeAuthenticTimestamp] == trustpolicy.ActionLog && outcome.VerificationLevel.Enforcement[trustpolicy.TypeRevocation] != trustpolicy.ActionEnforce {\n\t\treturn nil\n\t}\n\tlogger.Debug("Checking timestamping certificate chain revocation...")\n'),
 'U02_tsa_path_for_any_eku': (V, '\t\tCurrentTime: timestamp.Value,\n\t\tRoots:       rootCertPool,\n', '\t\tCurrentTime: timestamp.Value,\n\t\tRoots:       rootCertPool,\n\t\tKeyUsages:   []x509.ExtKeyUsage{x509.ExtKeyUsageAny},\n'),
 # round 5: spelling of the store types (T = verifier/trustpolicy/trustpolicy.go)
 'V01_store_type_spaces_trimmed_but_tsa_listing_exact': (H, '\t\tif trustStoreType != truststore.Type(storeType) {', '\t\tif string(trustStoreType) != strings.TrimSpace(storeType) {', '\n', None, (T, '\t\tif s == string(p) {', '\t\tif strings.TrimSpace(s) == string(p) {')),
 'V02_store_type_case_accepted_by_validation_only': (T, '\t\tif s == string(p) {', '\t\tif strings.EqualFold(s, string(p)) {'),
 # round 6: the caller's timestamping revocation validator must reach the verifier through every constructor
 'W01_timestamping_validator_ignored_next_to_revocation_client': (V, '\tif revocationTimestampingValidator == nil {\n', '\tif revocationTimestampingValidator == nil || verifierOptions.RevocationClient != nil {\n'),
 'W02_code_signing_validator_used_for_timestamping': (V, '\trevocationTimestampingValidator := verifierOptions.RevocationTimestampingValidator\n', '\trevocationTimestampingValidator := verifierOptions.RevocationCodeSigningValidator\n'),
 'W03_deprecated_constructor_drops_timestamping_validator': (V, '\topts.OCITrustPolicy = ociTrustPolicy\n\topts.PluginManager = pluginManager\n\treturn NewVerifierWithOptions(trustStore, opts)', '\treturn NewVerifierWithOptions(trustStore, VerifierOptions{OCITrustPolicy: ociTrustPolicy, PluginManager: pluginManager, RevocationClient: opts.RevocationClient, RevocationCodeSigningValidator: opts.RevocationCodeSigningValidator})'),
 'B01_expiry_boundary_only(harness-unobservable, tie catches)': (V, '!expiry.IsZero() && !time.Now().Before(expiry)', '!expiry.IsZero() && time.Now().After(expiry)'),
 # behaviour-preserving
 'R01_message_changed': (V, 'return errors.New("no timestamp countersignature was found in the signature envelope")', 'return errors.New("the envelope carries no RFC 3161 countersignature")'),
 'R02_swap_validnow_checks': (V, '''			if timeOfVerification.Before(cert.NotBefore) {
				return fmt.Errorf("verification time is before certificate %q validity period, it will be valid from %q", cert.Subject, cert.NotBefore.Format(time.RFC1123Z))
			}
			if timeOfVerification.After(cert.NotAfter) {
				return fmt.Errorf("verification time is after certificate %q validity period, it was expired at %q", cert.Subject, cert.NotAfter.Format(time.RFC1123Z))
			}''', '''			if timeOfVerification.After(cert.NotAfter) {
				return fmt.Errorf("verification time is after certificate %q validity period, it was expired at %q", cert.Subject, cert.NotAfter.Format(time.RFC1123Z))
			}
			if cert.NotBefore.After(timeOfVerification) {
				return fmt.Errorf("verification time is before certificate %q validity period, it will be valid from %q", cert.Subject, cert.NotBefore.Format(time.RFC1123Z))
			}'''),
 'R03_sa_demorgan': (V, SA, 'if !(!authenticSigningTime.Before(cert.NotBefore) && !cert.NotAfter.Before(authenticSigningTime)) {'),
}
GOENV = dict(os.environ, GOFLAGS='-mod=mod', GOPROXY='off', GOSUMDB='off', GOTOOLCHAIN='local', CGO_ENABLED='0')

def run(name):
    m = muts[name]
    f, old, new = m[0], m[1], m[2]
    subprocess.run(['git', '-C', MUT, 'checkout', '--', '.'], check=True)
    s = open(f).read()
    if s.count(old) != 1:
        print(name, '| PATTERN-COUNT', s.count(old)); return
    s = s.replace(old, new)
    if len(m) > 4 and m[4]:
        o2, n2 = m[4]
        if s.count(o2) != 1:
            print(name, '| PATTERN2-COUNT', s.count(o2)); return
        s = s.replace(o2, n2)
    if len(m) > 3 and m[3] and m[3].strip():
        s += '\n' + m[3]
        if '"sync"' not in s:
            s = s.replace('import (\n', 'import (\n\t"sync"\n', 1)
    open(f, 'w').write(s)
    if len(m) > 5:
        f2, o3, n3 = m[5]
        s2 = open(f2).read()
        if s2.count(o3) != 1:
            print(name, '| PATTERN3-COUNT', s2.count(o3)); return
        open(f2, 'w').write(s2.replace(o3, n3))
    b = subprocess.run(['go', 'build', './verifier/...'], cwd=MUT, env=GOENV, capture_output=True, text=True)
    if b.returncode != 0:
        print(name, '| DOES-NOT-COMPILE', (b.stdout + b.stderr)[-600:]); return
    p = subprocess.run(['./check', 'C06'], cwd=V_ROOT, env=dict(GOENV, VERIF_REPO=MUT), capture_output=True, text=True)
    out = p.stdout + p.stderr
    viol = [l for l in out.splitlines() if l.startswith('VIOLATION')]
    summ = [l for l in out.splitlines() if l.startswith('C06 tier')]
    v = 'SILENT'
    if viol:
        v = 'caught(no-input)' if 'no-failing-input-found' in viol[0] else 'caught+replay'
    print(name, '|', v, '|', summ[0].split('cases=')[1] if summ else out[-500:])
    sys.stdout.flush()

subprocess.run(['git', '-C', '/repo', 'worktree', 'remove', '--force', MUT], capture_output=True)
subprocess.run(['git', '-C', '/repo', 'worktree', 'add', '-q', MUT, 'HEAD'], check=True)
try:
    sel = sys.argv[1:]
    for n in muts:
        if not sel or any(n.startswith(a) for a in sel):
            run(n)
finally:
    subprocess.run(['git', '-C', '/repo', 'worktree', 'remove', '--force', MUT], capture_output=True)
    subprocess.run(['git', '-C', V_ROOT, 'checkout', '--', 'evidence'], capture_output=True)

#!/usr/bin/env python3
"""Robustness test of the C06 tie to the translated source (Props/C06.lean, namespace Tie).
usage (inside a private copy of /verif): python3 corpus/C06/tie_robustness.py [name ...]
E*/A*/T*: property-breaking edits inside the translated functions - the tie theorem must break;
H*: harmless rewrites (renames, reworded messages, reordered / re-expressed tests, flag vs break, early return of
the success, switch as if-chain, reordered independent steps) - ./check C06 must stay silent."""
import subprocess, sys, os, json
V_ROOT=os.path.dirname(os.path.dirname(os.path.dirname(os.path.abspath(__file__))))
MUT='/tmp/c06-tie-wt'; V=MUT+'/verifier/verifier.go'
subprocess.run(['git','-C','/repo','worktree','remove','--force',MUT],capture_output=True)
subprocess.run(['git','-C','/repo','worktree','add','-q',MUT,'HEAD'],check=True)
SA='if authenticSigningTime.Before(cert.NotBefore) || authenticSigningTime.After(cert.NotAfter) {'
muts={
 # breaking
 'E1_expiry_after_instead_of_not_before': [('!expiry.IsZero() && !time.Now().Before(expiry)','!expiry.IsZero() && time.Now().After(expiry)')],
 'E2_expiry_zero_guard_dropped': [('!expiry.IsZero() && !time.Now().Before(expiry)','!time.Now().Before(expiry)')],
 'A1_sa_after_dropped': [(SA,'if authenticSigningTime.Before(cert.NotBefore) {')],
 'A2_sa_notbefore_off_by_one': [(SA,'if !authenticSigningTime.After(cert.NotBefore) || authenticSigningTime.After(cert.NotAfter) {')],
 'A3_scheme_test_inverted': [('if signerInfo.SignedAttributes.SigningScheme == signature.SigningSchemeX509 {\n\t\tlogger.Debug("Under signing scheme notary.x509...")','if signerInfo.SignedAttributes.SigningScheme != signature.SigningSchemeX509SigningAuthority {\n\t\tlogger.Debug("Under signing scheme notary.x509...")')],
 'T1_tsa_revocation_with_signing_time': [('\t\tCertChain: tsaCertChain,\n\t})','\t\tCertChain:            tsaCertChain,\n\t\tAuthenticSigningTime: timestamp.Value,\n\t})')],
 'T2_bounded_after_dropped': [('if !timestamp.BoundedAfter(cert.NotBefore) {','if false {')],
 'T3_tsa_chain_verified_at_now': [('CurrentTime: timestamp.Value,','CurrentTime: timeOfVerification,')],
 'T4_expired_uses_notbefore': [('if timeOfVerification.After(cert.NotAfter) {\n\t\t\t\texpired = true','if timeOfVerification.After(cert.NotBefore) {\n\t\t\t\texpired = true')],
 'T5_unknown_revocation_tolerated': [('\tdefault:\n\t\t// revocationresult.ResultUnknown\n\t\treturn fmt.Errorf("timestamping certificate with subject %q revocation status is unknown", problematicCertSubject)','\tdefault:\n\t\t// revocationresult.ResultUnknown\n\t\tlogger.Debugf("timestamping certificate with subject %q revocation status is unknown", problematicCertSubject)')],
 'T6_chain_rules_on_signing_chain_dropped': [('if err := nx509.ValidateTimestampingCertChain(tsaCertChain); err != nil {','if err := nx509.ValidateTimestampingCertChain(tsaCertChain); err != nil && len(tsaCertChain) > 2 {')],
 # harmless
 'H1_expiry_rename_reword': [('if expiry := outcome.EnvelopeContent.SignerInfo.SignedAttributes.Expiry; !expiry.IsZero() && !time.Now().Before(expiry) {\n\t\treturn &notation.ValidationResult{\n\t\t\tError:  fmt.Errorf("digital signature has expired on %q", expiry.Format(time.RFC1123Z)),','if exp := outcome.EnvelopeContent.SignerInfo.SignedAttributes.Expiry; !exp.IsZero() && !time.Now().Before(exp) {\n\t\treturn &notation.ValidationResult{\n\t\t\tError:  fmt.Errorf("the signature expired on %q", exp.Format(time.RFC1123Z)),')],
 'H2_expiry_swap_conjuncts': [('!expiry.IsZero() && !time.Now().Before(expiry)','!time.Now().Before(expiry) && !expiry.IsZero()')],
 'H3_sa_rename_reword': [('authenticSigningTime := signerInfo.SignedAttributes.SigningTime\n\tfor _, cert := range signerInfo.CertificateChain {\n\t\t'+SA+'\n\t\t\treturn &notation.ValidationResult{\n\t\t\t\tError:  fmt.Errorf("certificate %q was not valid when the digital signature was produced at %q", cert.Subject, authenticSigningTime.Format(time.RFC1123Z)),','signedAt := signerInfo.SignedAttributes.SigningTime\n\tfor _, c := range signerInfo.CertificateChain {\n\t\tif signedAt.Before(c.NotBefore) || signedAt.After(c.NotAfter) {\n\t\t\treturn &notation.ValidationResult{\n\t\t\t\tError:  fmt.Errorf("certificate %q: not valid at the authentic signing time %q", c.Subject, signedAt.Format(time.RFC1123Z)),')],
 'H4_sa_demorgan': [(SA,'if !(!authenticSigningTime.Before(cert.NotBefore) && !cert.NotAfter.Before(authenticSigningTime)) {')],
 'H5_ts_swap_validnow_checks': [('''			if timeOfVerification.Before(cert.NotBefore) {
				return fmt.Errorf("verification time is before certificate %q validity period, it will be valid from %q", cert.Subject, cert.NotBefore.Format(time.RFC1123Z))
			}
			if timeOfVerification.After(cert.NotAfter) {
				return fmt.Errorf("verification time is after certificate %q validity period, it was expired at %q", cert.Subject, cert.NotAfter.Format(time.RFC1123Z))
			}''','''			if timeOfVerification.After(cert.NotAfter) {
				return fmt.Errorf("verification time is after certificate %q validity period, it was expired at %q", cert.Subject, cert.NotAfter.Format(time.RFC1123Z))
			}
			if timeOfVerification.Before(cert.NotBefore) {
				return fmt.Errorf("verification time is before certificate %q validity period, it will be valid from %q", cert.Subject, cert.NotBefore.Format(time.RFC1123Z))
			}''')],
 'H6_ts_rename_reword_flip': [('if len(signerInfo.UnsignedAttributes.TimestampSignature) == 0 {\n\t\treturn errors.New("no timestamp countersignature was found in the signature envelope")','if 0 == len(signerInfo.UnsignedAttributes.TimestampSignature) {\n\t\treturn errors.New("the envelope carries no RFC 3161 countersignature")'),
     ('tsaEnabled, err := isTSATrustStoreInPolicy(policyName, trustStores)','tsaListed, err := isTSATrustStoreInPolicy(policyName, trustStores)'),('if !tsaEnabled {','if !tsaListed {')],
 'H8_expired_flag_without_break': [('\t\t\t\texpired = true\n\t\t\t\tbreak\n','\t\t\t\texpired = true\n')],
 'H9_expired_flipped_comparison': [('if timeOfVerification.After(cert.NotAfter) {\n\t\t\t\texpired = true','if cert.NotAfter.Before(timeOfVerification) {\n\t\t\t\texpired = true')],
 'H10_expiry_early_return_of_success': [('\tif expiry := outcome.EnvelopeContent.SignerInfo.SignedAttributes.Expiry; !expiry.IsZero() && !time.Now().Before(expiry) {\n\t\treturn &notation.ValidationResult{\n\t\t\tError:  fmt.Errorf("digital signature has expired on %q", expiry.Format(time.RFC1123Z)),\n\t\t\tType:   trustpolicy.TypeExpiry,\n\t\t\tAction: outcome.VerificationLevel.Enforcement[trustpolicy.TypeExpiry],\n\t\t}\n\t}\n\n\treturn &notation.ValidationResult{\n\t\tType:   trustpolicy.TypeExpiry,\n\t\tAction: outcome.VerificationLevel.Enforcement[trustpolicy.TypeExpiry],\n\t}\n','\texpiry := outcome.EnvelopeContent.SignerInfo.SignedAttributes.Expiry\n\tif expiry.IsZero() || time.Now().Before(expiry) {\n\t\treturn &notation.ValidationResult{\n\t\t\tType:   trustpolicy.TypeExpiry,\n\t\t\tAction: outcome.VerificationLevel.Enforcement[trustpolicy.TypeExpiry],\n\t\t}\n\t}\n\treturn &notation.ValidationResult{\n\t\tError:  fmt.Errorf("digital signature has expired on %q", expiry.Format(time.RFC1123Z)),\n\t\tType:   trustpolicy.TypeExpiry,\n\t\tAction: outcome.VerificationLevel.Enforcement[trustpolicy.TypeExpiry],\n\t}\n')],
 'H11_final_switch_as_if': [('\tswitch finalResult {\n\tcase revocationresult.ResultOK:\n\t\tlogger.Debug("No verification impacting errors encountered while checking timestamping certificate chain revocation, status is OK")\n\tcase revocationresult.ResultRevoked:\n\t\treturn fmt.Errorf("timestamping certificate with subject %q is revoked", problematicCertSubject)\n\tdefault:\n\t\t// revocationresult.ResultUnknown\n\t\treturn fmt.Errorf("timestamping certificate with subject %q revocation status is unknown", problematicCertSubject)\n\t}\n','\tif finalResult == revocationresult.ResultRevoked {\n\t\treturn fmt.Errorf("timestamping certificate with subject %q is revoked", problematicCertSubject)\n\t}\n\tif finalResult != revocationresult.ResultOK {\n\t\treturn fmt.Errorf("timestamping certificate with subject %q revocation status is unknown", problematicCertSubject)\n\t}\n')],
 'H7_ts_reorder_rules_and_range': None,
}
def apply(s, pairs):
    for old,new in pairs:
        assert s.count(old)==1,(s.count(old),old[:50])
        s=s.replace(old,new)
    return s
def run(name):
    subprocess.run(['git','-C',MUT,'checkout','--','.'],check=True)
    s=open(V).read()
    if name=='H7_ts_reorder_rules_and_range':
        a=s.index('\t// 3. Validate timestamping certificate chain'); b=s.index('\t// 4. Check the timestamp against the signing certificate chain'); c=s.index('\t// 5. Perform the timestamping certificate chain revocation check')
        s=s[:a]+s[b:c]+s[a:b]+s[c:]
    else:
        s=apply(s,muts[name])
    open(V,'w').write(s)
    env=dict(os.environ,GOFLAGS='-mod=mod',GOPROXY='off',GOSUMDB='off',GOTOOLCHAIN='local',CGO_ENABLED='0')
    b=subprocess.run(['go','build','./verifier/'],cwd=MUT,env=env,capture_output=True,text=True)
    if b.returncode: print(name,'DOES-NOT-COMPILE',b.stderr[-300:]); return
    p=subprocess.run(['./check','C06'],cwd=V_ROOT,env=dict(env,VERIF_REPO=MUT),capture_output=True,text=True)
    out=p.stdout
    viol=[l for l in out.splitlines() if l.startswith('VIOLATION')]
    summ=[l for l in out.splitlines() if l.startswith('C06 tier')]
    broken=''
    if viol:
        rp=viol[0].split('replay=')[1].split()[0]
        r=json.load(open(rp))
        broken=' ; '.join(sorted({x['what']+':'+x['detail'][:70].replace('\n',' ') for x in r.get('no_longer_checks',[])}|{b[0]+':'+str(b[1])[:70].replace('\n',' ') for b in r.get('broken',[])}))
    print(name,'|', 'SILENT' if not viol else ('VIOLATION'+(' (no input)' if 'no-failing' in viol[0] else ' +replay')),'|',summ[0].split('theorems=')[1] if summ else out[-300:],'|',broken)
    sys.stdout.flush()
for n in (sys.argv[1:] or list(muts)): run(n)
subprocess.run(['git','-C',MUT,'checkout','--','.'],check=True)
subprocess.run(['git','-C','/repo','worktree','remove','--force',MUT],capture_output=True)
subprocess.run(['git','-C',V_ROOT,'checkout','--','evidence','lean/NotationModel/Generated'],capture_output=True)

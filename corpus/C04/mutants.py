#!/usr/bin/env python3
"""Mutation self-test of C04: applies each property-breaking (M*, S*) or behaviour-preserving (R*)
change to a scratch worktree of /repo and runs ./check C04 against it.
usage (inside a private copy of /verif): python3 corpus/C04/mutants.py [name ...]
M*/S* must print VIOLATION with a replay, R* must stay silent - except the three in TIE_ONLY, which
leave the behaviour alone but leave what the source tie (Props/C04.lean, namespace Tie) can follow:
they are reported as a broken tie theorem with `no-failing-input-found` and no failing case."""
import sys, subprocess, os, json, re
V=os.path.dirname(os.path.dirname(os.path.dirname(os.path.abspath(__file__))))
MUT='/tmp/c04-mutants-wt'
VG='verifier/verifier.go'; PK='internal/pkix/pkix.go'
SUB='if got, ok := dn2[key]; !ok || got != value {'
WC='''	if slices.Contains(trustedIdentities, trustpolicyInternal.Wildcard) {
		return nil
	}
'''
LEAFPARSE='''	leafCertDN, err := pkix.ParseDistinguishedName(leafCert.Subject.String())
	if err != nil {
		return fmt.Errorf("error while parsing the certificate subject from the digital signature. error : %q", err)
	}'''
def cache(key): return '''	leafCertDN, cachedDN := leafDNCache[string(%s)]
	if !cachedDN {
		var err error
		leafCertDN, err = pkix.ParseDistinguishedName(leafCert.Subject.String())
		if err != nil {
			return fmt.Errorf("error while parsing the certificate subject from the digital signature. error : %%q", err)
		}
		leafDNCache[string(%s)] = leafCertDN
	}''' % (key,key)
LOOP='''	for _, trustedX509Identity := range trustedX509Identities {
		if pkix.IsSubsetDN(trustedX509Identity, leafCertDN) {
			return nil
		}
	}
'''
mutants = {
 'M1-root-cert': [(VG,'leafCert := certs[0] //','leafCert := certs[len(certs)-1] //')],
 'M1b-certs1': [(VG,'leafCert := certs[0] //','leafCert := certs[1] //')],
 'M2-any-cert': [(VG,LOOP,LOOP+'''	for _, cert := range certs[1:] {
		if dn, err := pkix.ParseDistinguishedName(cert.Subject.String()); err == nil {
			for _, trustedX509Identity := range trustedX509Identities {
				if pkix.IsSubsetDN(trustedX509Identity, dn) {
					return nil
				}
			}
		}
	}
''')],
 'M3-subset-reversed': [(VG,'pkix.IsSubsetDN(trustedX509Identity, leafCertDN)','pkix.IsSubsetDN(leafCertDN, trustedX509Identity)')],
 'M4-zero-value-read': [(PK,SUB,'if got, ok := dn2[key]; ok && got != value {')],
 'M5-alias-dropped': [(PK,'if attribute.Type == "S" {','if attribute.Type == "s" {')],
 'M6-prefix-compare': [(PK,SUB,'if got, ok := dn2[key]; !ok || !strings.HasPrefix(got, value) {')],
 'M7-skip-bad-identity': [(VG,'''			parsedSubject, err := pkix.ParseDistinguishedName(identityValue)
			if err != nil {
				return err
			}''','''			parsedSubject, err := pkix.ParseDistinguishedName(identityValue)
			if err != nil {
				continue
			}''')],
 'M8-wildcard-substring': [(VG,WC,'''	for _, ti := range trustedIdentities {
		if strings.Contains(ti, trustpolicyInternal.Wildcard) {
			return nil
		}
	}
''')],
 'M9-mandatory-O-dropped': [(PK,'mandatoryFields := []string{"C", "ST", "O"}','mandatoryFields := []string{"C", "ST"}')],
 'M10-duplicates-overwrite': [(PK,'if _, ok := attrKeyValue[attribute.Type]; !ok {','if _, ok := attrKeyValue[attribute.Type]; !ok || true {')],
 'M11-multivalued-off-by-one': [(PK,'if len(rdn.Attributes) > 1 {','if len(rdn.Attributes) > 2 {')],
 'M12-identity-error-not-recorded': [(VG,'''		if err != nil {
			authenticityResult.Error = err
			logVerificationResult(logger, authenticityResult)
		}''','''		if err != nil && authenticityResult.Error != nil {
			authenticityResult.Error = err
			logVerificationResult(logger, authenticityResult)
		}''')],
 'M13-capability-test-reversed': [(VG,'if !slices.Contains(pluginCapabilities, pluginframework.CapabilityTrustedIdentityVerifier) {','if slices.Contains(pluginCapabilities, pluginframework.CapabilityTrustedIdentityVerifier) {')],
 'M14-empty-mandatory-accepted': [(PK,'if attrKeyValue[field] == "" {','if _, ok := attrKeyValue[field]; !ok {')],
 'M15-eqhash-check-weakened': [(PK,'if strings.Contains(name, "=#") {','if strings.HasPrefix(name, "=#") {')],
 'M16-no-x509-identity-passes': [(VG,'	if len(trustedX509Identities) == 0 {\n','''	if len(trustedX509Identities) == 0 && len(trustedIdentities) > 0 {
		return nil // only identities of other kinds: not for notation to judge
	}
	if len(trustedX509Identities) == 0 {
''')],
 'M17-first-identity-only': [(VG,'''		if pkix.IsSubsetDN(trustedX509Identity, leafCertDN) {
			return nil
		}
	}
''','''		if pkix.IsSubsetDN(trustedX509Identity, leafCertDN) {
			return nil
		}
		break
	}
''')],
 'M18-case-insensitive-values': [(PK,SUB,'if got, ok := dn2[key]; !ok || !strings.EqualFold(got, value) {')],
 'M19-issuer-instead-of-subject': [(VG,'pkix.ParseDistinguishedName(leafCert.Subject.String())','pkix.ParseDistinguishedName(leafCert.Issuer.String())')],
 'M20-prefix-hasprefix': [(VG,'if identityPrefix == trustpolicyInternal.X509Subject {','if strings.HasPrefix(identityPrefix, trustpolicyInternal.X509Subject) {')],
 'M21-cut-at-last-colon': [(VG,'		identityPrefix, identityValue, found := strings.Cut(identity, ":")\n','''		identityPrefix, identityValue, found := "", "", false
		if i := strings.LastIndex(identity, ":"); i >= 0 {
			identityPrefix, identityValue, found = identity[:i], identity[i+1:], true
		}
''')],
 'M25-alias-after-duplicate-test': [(PK,'''			if attribute.Type == "S" {
				attribute.Type = "ST"
			}
			if _, ok := attrKeyValue[attribute.Type]; !ok {''','''			_, ok := attrKeyValue[attribute.Type]
			if attribute.Type == "S" {
				attribute.Type = "ST"
			}
			if !ok {''')],
 'M26-wildcard-first-only': [(VG,'if slices.Contains(trustedIdentities, trustpolicyInternal.Wildcard) {','if len(trustedIdentities) > 0 && trustedIdentities[0] == trustpolicyInternal.Wildcard {')],
 'M27-any-capability-skips-native': [(VG,'if !slices.Contains(pluginCapabilities, pluginframework.CapabilityTrustedIdentityVerifier) {','if len(pluginCapabilities) == 0 {')],
 'M28-plugin-identity-failure-ignored': [(VG,'''		case pluginframework.CapabilityTrustedIdentityVerifier:
			if !pluginResult.Success {''','''		case pluginframework.CapabilityTrustedIdentityVerifier:
			if !pluginResult.Success && pluginResult.Reason == "" {''')],
 'M29-cache-by-raw-public-key': [(VG,LEAFPARSE,cache('leafCert.RawSubjectPublicKeyInfo'))],
 'M30-cache-by-issuer': [(VG,LEAFPARSE,cache('leafCert.RawIssuer'))],
 'S1-wildcard-after-identity-loop': [(VG,WC,''),(VG,'	if len(trustedX509Identities) == 0 {',WC+'	if len(trustedX509Identities) == 0 {')],
 'S3-wildcard-needs-nonempty-subject': [(VG,'if slices.Contains(trustedIdentities, trustpolicyInternal.Wildcard) {','if slices.Contains(trustedIdentities, trustpolicyInternal.Wildcard) && len(certs[0].Subject.Names) > 0 {')],
 'S4-wildcard-needs-country': [(VG,'if slices.Contains(trustedIdentities, trustpolicyInternal.Wildcard) {','if slices.Contains(trustedIdentities, trustpolicyInternal.Wildcard) && len(certs[0].Subject.Country) > 0 {')],
 'S5-leaf-parsed-before-wildcard': [(VG,WC,'''	if _, err := pkix.ParseDistinguishedName(certs[0].Subject.String()); err != nil {
		return err
	}
'''+WC)],
 'S6-capability-trimspace-at-filter': [(VG,'if capability == pluginframework.CapabilityRevocationCheckVerifier || capability == pluginframework.CapabilityTrustedIdentityVerifier {','if c := pluginframework.Capability(strings.TrimSpace(string(capability))); c == pluginframework.CapabilityRevocationCheckVerifier || c == pluginframework.CapabilityTrustedIdentityVerifier {\n\t\t\t\tcapability = c')],
 'S7-capability-prefix-at-filter': [(VG,'if capability == pluginframework.CapabilityRevocationCheckVerifier || capability == pluginframework.CapabilityTrustedIdentityVerifier {','if strings.HasPrefix(string(capability), "SIGNATURE_VERIFIER.") {')],
 'S7b-capability-equalfold-filter-and-guard': [(VG,'if capability == pluginframework.CapabilityRevocationCheckVerifier || capability == pluginframework.CapabilityTrustedIdentityVerifier {','if strings.EqualFold(string(capability), string(pluginframework.CapabilityRevocationCheckVerifier)) || strings.EqualFold(string(capability), string(pluginframework.CapabilityTrustedIdentityVerifier)) {'),(VG,'if !slices.Contains(pluginCapabilities, pluginframework.CapabilityTrustedIdentityVerifier) {','if !slices.Contains(pluginCapabilities, pluginframework.CapabilityTrustedIdentityVerifier) && !slices.Contains(pluginCapabilities, pluginframework.Capability(strings.ToLower(string(pluginframework.CapabilityTrustedIdentityVerifier)))) {')],
 'S8-rdn-last-value-stands': [(PK,"\t\tif len(rdn.Attributes) > 1 {","\t\tfor len(rdn.Attributes) > 1 && rdn.Attributes[0].Type == rdn.Attributes[1].Type {\n\t\t\trdn.Attributes = rdn.Attributes[1:]\n\t\t}\n\t\tif len(rdn.Attributes) > 1 {")],
 'S9-rdn-first-attribute-stands': [(PK,"\t\tif len(rdn.Attributes) > 1 {\n\t\t\treturn nil, fmt.Errorf(\"distinguished name (DN) %q has multi-valued RDN attributes, remove multi-valued RDN attributes as they are not supported\", name)\n\t\t}\n\t\tfor _, attribute := range rdn.Attributes {","\t\tfor _, attribute := range rdn.Attributes[:1] {")],
 'R1-message-and-order': [(VG,'''			if identityValue == "" {
				return fmt.Errorf("trust policy statement %q has trusted identity %q without an identity value", policyName, identity)
			}''','''			if len(identityValue) == 0 {
				return fmt.Errorf("policy %q: identity %q has no value", policyName, identity)
			}''')],
 'R2-subset-refactored': [(PK,'''	for key, value := range dn1 {
		if got, ok := dn2[key]; !ok || got != value {
			return false
		}
	}
	return true''','''	if len(dn1) > len(dn2) {
		return false
	}
	for k, want := range dn1 {
		have, present := dn2[k]
		if !present {
			return false
		}
		if have != want {
			return false
		}
	}
	return true''')],
 'R3-cache-by-raw-certificate': [(VG,LEAFPARSE,cache('leafCert.Raw'))],
 'R4-reword-and-flip': [(VG,'''			if identityValue == "" {
				return fmt.Errorf("trust policy statement %q has trusted identity %q without an identity value", policyName, identity)
			}''','''			if "" == identityValue {
				return fmt.Errorf("policy %q: identity %q has no value", policyName, identity)
			}''')],
}
# behaviour-preserving, but outside what the translated-source tie can follow:
#  R1 `len(s) == 0` on a string (the translator has no types: GoLite.len is for lists),
#  R2 the early `len(dn1) > len(dn2)` exit is only equivalent for maps with unique keys, the tie is
#     stated for every association list,
#  R3 package-level state is outside the translated (pure) subset.
TIE_ONLY = {'R1-message-and-order', 'R2-subset-refactored', 'R3-cache-by-raw-certificate'}
names = sys.argv[1:] or list(mutants)
subprocess.run(['git','-C','/repo','worktree','remove','--force',MUT],capture_output=True)
subprocess.run(['git','-C','/repo','worktree','add','-q',MUT,'HEAD'],check=True)
bad=[]
try:
    for name in names:
        subprocess.run(['git','-C',MUT,'checkout','-q','--','.'],check=True)
        ok=True
        for f,old,new in mutants[name]:
            p=os.path.join(MUT,f); s=open(p).read()
            if old not in s: ok=False; break
            s=s.replace(old,new,1)
            if 'leafDNCache' in new:
                s=s.replace('\nfunc verifyX509TrustedIdentities(','\nvar leafDNCache = map[string]map[string]string{}\n\nfunc verifyX509TrustedIdentities(',1)
            open(p,'w').write(s)
        if not ok: print('==',name,'PATTERN NOT FOUND'); bad.append(name); continue
        env=dict(os.environ,VERIF_REPO=MUT,GOFLAGS='-mod=mod',GOPROXY='off',GOSUMDB='off',GOTOOLCHAIN='local',CGO_ENABLED='0')
        r=subprocess.run([os.path.join(V,'check'),'C04'],cwd=V,env=env,capture_output=True,text=True)
        out=r.stdout.strip().split('\n'); viol=[l for l in out if l.startswith('VIOLATION')]
        kind='silent'
        detail=''
        if viol:
            kind='no-failing-input' if 'no-failing-input-found' in viol[0] else 'replay'
            m=re.search(r'replay=(\S+)',viol[0]); rp=json.load(open(m.group(1)))
            if rp.get('kind')=='holds-false':
                detail='failed=%s ids=%s leaf=%r plugin=%s impl_pass=%s'%(rp['failed_clauses'],[i['raw'] for i in rp['input']['identities']],rp['input']['chain'][0]['text'],rp['input']['plugin'],rp['impl_obs']['pass'])
        want='replay'
        if name.startswith('R'): want='no-failing-input' if name in TIE_ONLY else 'silent'
        if kind!=want: bad.append(name)
        print('==',name,'|',kind,('OK' if kind==want else 'UNEXPECTED'),'|',out[-1][-120:] if out else '')
        if detail: print('    ',detail[:300])
finally:
    subprocess.run(['git','-C','/repo','worktree','remove','--force',MUT],capture_output=True)
    subprocess.run(['git','-C',V,'checkout','--','lean/NotationModel/Generated/C04.lean'],capture_output=True)
print('unexpected:',bad or 'none')

#!/usr/bin/env python3
"""Mutation self-test of C03: applies each hand-written change to a scratch worktree of /repo
and runs ./check C03 against it (run inside a PRIVATE COPY of /verif, never in /verif itself).
usage: python3 corpus/C03/mutants.py [name ...]      (no name: all)
Every mutant must give `VIOLATION property=C03 replay=...`; the ones named r* must stay silent
(r1-r4: behaviour-preserving refactorings; rw1-rw8: harmless rewrites of the functions that are
translated to Lean on every run - the tie proofs must survive them)."""
import os, subprocess, sys
V = os.path.dirname(os.path.dirname(os.path.dirname(os.path.abspath(__file__))))
WT = "/tmp/c03-mutant-wt"
H, VF, OCI, TS, FN = "verifier/helpers.go", "verifier/verifier.go", "verifier/trustpolicy/oci.go", "verifier/truststore/truststore.go", "internal/file/file.go"
LOAD = "trustCerts, err := loadX509TrustStores(ctx, outcome.EnvelopeContent.SignerInfo.SignedAttributes.SigningScheme, policyName, trustStores, v.trustStore)"
FILTER = "if trustStoreType != truststore.Type(storeType) {"
ERRRET = "\t\tif err != nil {\n\t\t\treturn nil, err\n\t\t}\n\t\tcertificates"
CACHE = [(VF, '\t"strings"\n\t"time"\n', '\t"strings"\n\t"sync"\n\t"time"\n'),
         (VF, '\trevocationTimestampingValidator revocation.Validator\n}', '\trevocationTimestampingValidator revocation.Validator\n\tcache sync.Map\n}')]
VERDICT = "\t\t// verify authenticity\n\t\tauthenticityResult = verifyAuthenticity(trustCerts, outcome)"
M = {
 "m1": ("type filter dropped", [(H, "\t\t" + FILTER + "\n\t\t\tcontinue\n\t\t}\n", "\t\t_ = storeType\n")]),
 "m2": ("load error ignored (continue)", [(H, ERRRET, "\t\tif err != nil {\n\t\t\tcontinue\n\t\t}\n\t\tcertificates")]),
 "m3": ("signingAuthority -> TypeCA", [(H, "\t\ttypeToLoad = truststore.TypeSigningAuthority\n\tdefault:", "\t\ttypeToLoad = truststore.TypeCA\n\tdefault:")]),
 "m4": ("filter widened to tsa, loaded under its own type", [
     (H, FILTER, "if trustStoreType != truststore.Type(storeType) && truststore.Type(storeType) != truststore.TypeTSA {"),
     (H, "x509TrustStore.GetCertificates(ctx, trustStoreType, name)", "x509TrustStore.GetCertificates(ctx, truststore.Type(storeType), name)")]),
 "m5b": ("processed set keyed by name and filled before the filter", [
     (H, "\t\tif processedStoreSet.Contains(trustStore) {\n\t\t\t// we loaded this trust store already\n\t\t\tcontinue\n\t\t}\n\n\t\tstoreType, name, found := strings.Cut(trustStore, \":\")",
         "\t\tstoreType, name, found := strings.Cut(trustStore, \":\")\n\t\tif processedStoreSet.Contains(name) {\n\t\t\tcontinue\n\t\t}\n\t\tprocessedStoreSet.Add(name)\n"),
     (H, "\t\tprocessedStoreSet.Add(trustStore)\n", "")]),
 "m6": ("wildcard statement preferred over the exact match", [(OCI,
     "\tif applicablePolicy != nil {\n\t\t// a policy with exact match for registry scope takes precedence over\n\t\t// a wildcard (*) policy.\n\t\treturn applicablePolicy, nil\n\t} else if wildcardPolicy != nil {\n\t\treturn wildcardPolicy, nil\n\t} else {",
     "\tif wildcardPolicy != nil {\n\t\treturn wildcardPolicy, nil\n\t} else if applicablePolicy != nil {\n\t\treturn applicablePolicy, nil\n\t} else {")]),
 "m7": ("retry without the last store after a load error", [(VF, "\t" + LOAD, "\t" + LOAD +
     "\n\tif err != nil && len(trustCerts) == 0 && len(trustStores) > 1 {\n\t\ttrustCerts, err = loadX509TrustStores(ctx, outcome.EnvelopeContent.SignerInfo.SignedAttributes.SigningScheme, policyName, trustStores[:len(trustStores)-1], v.trustStore)\n\t}")]),
 "m8": ("load error `break`", [(H, ERRRET, "\t\tif err != nil {\n\t\t\tbreak\n\t\t}\n\t\tcertificates")]),
 "m9": ("filter reversed", [(H, FILTER, "if trustStoreType == truststore.Type(storeType) {")]),
 "m10": ("wildcard statement's stores merged into the exact statement", [(OCI, "\tif applicablePolicy != nil {\n\t\t// a policy with exact match",
     "\tif applicablePolicy != nil && wildcardPolicy != nil {\n\t\tapplicablePolicy.TrustStores = append(applicablePolicy.TrustStores, wildcardPolicy.TrustStores...)\n\t}\n\tif applicablePolicy != nil {\n\t\t// a policy with exact match")]),
 "m11": ("processed set never filled", [(H, "\t\tprocessedStoreSet.Add(trustStore)\n", "")]),
 "m12": ("cut at the LAST separator", [(H, "\t\tstoreType, name, found := strings.Cut(trustStore, \":\")\n\t\tif !found {\n\t\t\treturn nil, truststore.TrustStoreError{Msg: fmt.Sprintf(\"error while loading the trust store,",
     "\t\tidx := strings.LastIndex(trustStore, \":\")\n\t\tfound := idx >= 0\n\t\tvar storeType, name string\n\t\tif found {\n\t\t\tstoreType, name = trustStore[:idx], trustStore[idx+1:]\n\t\t}\n\t\tif !found {\n\t\t\treturn nil, truststore.TrustStoreError{Msg: fmt.Sprintf(\"error while loading the trust store,")]),
 "m16": ("store type compared case-insensitively", [(H, FILTER, "if !strings.EqualFold(string(trustStoreType), storeType) {")]),
 "m19": ("VerifyAuthenticity dropped", [(VF, "\t_, err := signature.VerifyAuthenticity(&outcome.EnvelopeContent.SignerInfo, trustCerts)\n\tif err != nil {", "\tvar err error\n\tif err != nil {")]),
 "m20": ("last trusted certificate not compared", [(VF, "signature.VerifyAuthenticity(&outcome.EnvelopeContent.SignerInfo, trustCerts)", "signature.VerifyAuthenticity(&outcome.EnvelopeContent.SignerInfo, trustCerts[:len(trustCerts)-1])")]),
 "m21": ("load error fatal only for the first store", [(H, ERRRET, "\t\tif err != nil {\n\t\t\tif len(certificates) > 0 {\n\t\t\t\tcontinue\n\t\t\t}\n\t\t\treturn nil, err\n\t\t}\n\t\tcertificates")]),
 "m22": ("load error reported with the action of authenticTimestamp", [(VF,
     "\t\t\tError:  err,\n\t\t\tType:   trustpolicy.TypeAuthenticity,\n\t\t\tAction: outcome.VerificationLevel.Enforcement[trustpolicy.TypeAuthenticity],\n\t\t}\n\t} else {\n\t\t// verify authenticity",
     "\t\t\tError:  err,\n\t\t\tType:   trustpolicy.TypeAuthenticity,\n\t\t\tAction: outcome.VerificationLevel.Enforcement[trustpolicy.TypeAuthenticTimestamp],\n\t\t}\n\t} else {\n\t\t// verify authenticity")]),
 # --- history (one verifier, several verifications)
 "h1": ("trust certs memoised per (statement name, scheme)", CACHE + [(VF, "\t" + LOAD,
     "\tvar trustCerts []*x509.Certificate\n\tckey := policyName + \"|\" + string(outcome.EnvelopeContent.SignerInfo.SignedAttributes.SigningScheme)\n\tif c, ok := v.cache.Load(ckey); ok {\n\t\ttrustCerts = c.([]*x509.Certificate)\n\t} else {\n\t\ttrustCerts, err = loadX509TrustStores(ctx, outcome.EnvelopeContent.SignerInfo.SignedAttributes.SigningScheme, policyName, trustStores, v.trustStore)\n\t\tif err == nil {\n\t\t\tv.cache.Store(ckey, trustCerts)\n\t\t}\n\t}")]),
 "h2": ("authenticity verdict memoised per (statement name, signature)", CACHE + [(VF, VERDICT,
     "\t\tvkey := policyName + \"|\" + string(sigBlob)\n\t\tif c, ok := v.cache.Load(vkey); ok {\n\t\t\tr := *(c.(*notation.ValidationResult))\n\t\t\tauthenticityResult = &r\n\t\t} else {\n\t\t\tauthenticityResult = verifyAuthenticity(trustCerts, outcome)\n\t\t\tr := *authenticityResult\n\t\t\tv.cache.Store(vkey, &r)\n\t\t}")]),
 "h3": ("the real x509TrustStore memoises GetCertificates per (type, name)", [
     (TS, "type x509TrustStore struct {\n\ttrustStorefs dir.SysFS\n}", "type x509TrustStore struct {\n\ttrustStorefs dir.SysFS\n\tloaded       map[string][]*x509.Certificate\n}"),
     (TS, "\treturn &x509TrustStore{trustStorefs}", "\treturn &x509TrustStore{trustStorefs, map[string][]*x509.Certificate{}}"),
     (TS, "\tif !file.IsValidFileName(namedStore) {", "\tif c, ok := trustStore.loaded[string(storeType)+\"/\"+namedStore]; ok {\n\t\treturn c, nil\n\t}\n\tif !file.IsValidFileName(namedStore) {"),
     (TS, "\t}\n\treturn certificates, nil\n}\n\n// ValidateCertificates", "\t}\n\ttrustStore.loaded[string(storeType)+\"/\"+namedStore] = certificates\n\treturn certificates, nil\n}\n\n// ValidateCertificates")]),
 "h4": ("negative cache of load errors per (name, scheme, list)", CACHE + [(VF, "\t" + LOAD,
     "\tvar trustCerts []*x509.Certificate\n\tnkey := policyName + \"|\" + string(outcome.EnvelopeContent.SignerInfo.SignedAttributes.SigningScheme) + \"|\" + strings.Join(trustStores, \",\")\n\tif c, ok := v.cache.Load(nkey); ok {\n\t\terr = c.(error)\n\t} else {\n\t\ttrustCerts, err = loadX509TrustStores(ctx, outcome.EnvelopeContent.SignerInfo.SignedAttributes.SigningScheme, policyName, trustStores, v.trustStore)\n\t\tif err != nil {\n\t\t\tv.cache.Store(nkey, err)\n\t\t}\n\t}")]),
 "h5": ("union of everything ever loaded", CACHE + [(VF, VERDICT,
     "\t\tif prev, ok := v.cache.Load(\"all\"); ok && len(trustCerts) > 0 {\n\t\t\ttrustCerts = append(append([]*x509.Certificate{}, trustCerts...), prev.([]*x509.Certificate)...)\n\t\t}\n\t\tv.cache.Store(\"all\", trustCerts)\n\t\tauthenticityResult = verifyAuthenticity(trustCerts, outcome)")]),
 # --- round 3: file system oddities, plugin present
 "s1": ("symbolic links to certificate FILES are read", [(TS, "if file.IsDir() || file.Type()&fs.ModeSymlink != 0 {", "if file.IsDir() {")]),
 "s2": ("store directory check reduced to existence (any mode)", [(TS, "\tif !mode.IsDir() || mode&fs.ModeSymlink != 0 {", "\tif false && (!mode.IsDir() || mode&fs.ModeSymlink != 0) {")]),
 "s3": ("trust store check skipped when the plugin verifies trusted identities", [(VF, "\tif err != nil {\n\t\tauthenticityResult = &notation.ValidationResult{\n\t\t\tError:  err,",
     "\tif slices.Contains(pluginCapabilities, pluginframework.CapabilityTrustedIdentityVerifier) {\n\t\tauthenticityResult = &notation.ValidationResult{Type: trustpolicy.TypeAuthenticity, Action: outcome.VerificationLevel.Enforcement[trustpolicy.TypeAuthenticity]}\n\t} else if err != nil {\n\t\tauthenticityResult = &notation.ValidationResult{\n\t\t\tError:  err,")]),
 "s4": ("enforced trust store failure not returned when a plugin will verify identities", [(VF,
     "\tlogVerificationResult(logger, authenticityResult)\n\tif isCriticalFailure(authenticityResult) {\n\t\treturn authenticityResult.Error\n\t}\n\n\t// verify x509 trusted identity",
     "\tlogVerificationResult(logger, authenticityResult)\n\tif isCriticalFailure(authenticityResult) && !slices.Contains(pluginCapabilities, pluginframework.CapabilityTrustedIdentityVerifier) {\n\t\treturn authenticityResult.Error\n\t}\n\n\t// verify x509 trusted identity")]),
 "s5": ("GetCertificates no longer checks the store name (Validate still does)", [(TS, "\tif !file.IsValidFileName(namedStore) {", "\tif false && !file.IsValidFileName(namedStore) {")]),
 "s6": ("store name check without the dot-segment guard and anchored only at the end", [(FN, "regexp.MustCompile(`^[a-zA-Z0-9_.-]+$`)", "regexp.MustCompile(`[a-zA-Z0-9_.-]+$`)")]),
 "s7": ("plugin identity success clears the authenticity error (seeded C03-5 in one line)", [(VF, "\t\t\tif !pluginResult.Success {\n\t\t\t\t// find the Authenticity VerificationResult",
     "\t\t\tif pluginResult.Success {\n\t\t\t\tfor _, r := range outcome.VerificationResults {\n\t\t\t\t\tif r.Type == trustpolicy.TypeAuthenticity {\n\t\t\t\t\t\tr.Error = nil\n\t\t\t\t\t}\n\t\t\t\t}\n\t\t\t}\n\t\t\tif !pluginResult.Success {\n\t\t\t\t// find the Authenticity VerificationResult")]),
 # --- round 4: statement names that are loosely equal; concurrency on the real store (SAMPLED detection)
 "n1": ("blob statement looked up with surrounding white space trimmed", [("verifier/trustpolicy/blob.go",
     "\t\tif policyStatement.Name == policyName {", "\t\tif strings.TrimSpace(policyStatement.Name) == strings.TrimSpace(policyName) {")]),
 "n2": ("blob statement looked up with strings.EqualFold (seeded C03-7)", [("verifier/trustpolicy/blob.go",
     "\t\tif policyStatement.Name == policyName {", "\t\tif strings.EqualFold(policyStatement.Name, policyName) {")]),
 "c1": ("x509TrustStore keeps the resolved path in a field of the (shared) store object", [
     (TS, "type x509TrustStore struct {\n\ttrustStorefs dir.SysFS\n}", "type x509TrustStore struct {\n\ttrustStorefs dir.SysFS\n\tcur          string\n}"),
     (TS, "\treturn &x509TrustStore{trustStorefs}", "\treturn &x509TrustStore{trustStorefs: trustStorefs}"),
     (TS, "\tfiles, err := os.ReadDir(path)", "\ttrustStore.cur = path\n\tfiles, err := os.ReadDir(trustStore.cur)"),
     (TS, "\t\tjoinedPath := filepath.Join(path, certFileName)", "\t\tjoinedPath := filepath.Join(trustStore.cur, certFileName)")]),
 "c2": ("loaded certificates collected in a package-level scratch slice", [
     (H, "func loadX509TrustStoresWithType(", "var scratchCerts []*x509.Certificate\n\nfunc loadX509TrustStoresWithType("),
     (H, "\tvar certificates []*x509.Certificate\n\tfor _, trustStore := range trustStores {", "\tscratchCerts = scratchCerts[:0]\n\tfor _, trustStore := range trustStores {"),
     (H, "\t\tcertificates = append(certificates, certs...)", "\t\tscratchCerts = append(scratchCerts, certs...)"),
     (H, "\t\tprocessedStoreSet.Add(trustStore)\n\t}\n\treturn certificates, nil", "\t\tprocessedStoreSet.Add(trustStore)\n\t}\n\treturn append([]*x509.Certificate(nil), scratchCerts...), nil")]),
 "c3": ("dir.X509TrustStoreDir appends to a shared pre-sized slice (seeded C03-8)", [("dir/path.go",
     "\tpathItems := []string{TrustStoreDir, \"x509\"}\n\tpathItems = append(pathItems, items...)\n\treturn path.Join(pathItems...)\n}",
     "\treturn path.Join(append(x509TrustStoreRoot, items...)...)\n}\n\nvar x509TrustStoreRoot = append(make([]string, 0, 5), TrustStoreDir, \"x509\")")]),
 # --- round 5: spellings of the registry / artifact path; store names differing in letter case
 "p1": ("registry scopes matched case-insensitively", [(OCI, "\t\t} else if slices.Contains(policyStatement.RegistryScopes, artifactPath) {",
     "\t\t} else if slices.ContainsFunc(policyStatement.RegistryScopes, func(s string) bool { return strings.EqualFold(s, artifactPath) }) {"),
     (OCI, "import (\n", "import (\n\tstdslices \"slices\"\n"),
     (OCI, "slices.ContainsFunc(", "stdslices.ContainsFunc(")]),
 "p2": ("default https port stripped from the artifact path before matching", [(OCI, "\tartifactPath := artifactReference[:i]\n",
     "\tartifactPath := strings.Replace(artifactReference[:i], \":443/\", \"/\", 1)\n")]),
 "p3": ("docker.io rewritten to index.docker.io before matching", [(OCI, "\tartifactPath := artifactReference[:i]\n",
     "\tartifactPath := artifactReference[:i]\n\tif strings.HasPrefix(artifactPath, \"docker.io/\") {\n\t\tartifactPath = \"index.\" + artifactPath\n\t}\n")]),
 "p4": ("a tag in front of the digest is cut off (reference accepted)", [(OCI, "\tartifactPath := artifactReference[:i]\n",
     "\tartifactPath := artifactReference[:i]\n\tif j := strings.LastIndex(artifactPath, \":\"); j > strings.LastIndex(artifactPath, \"/\") {\n\t\tartifactPath = artifactPath[:j]\n\t}\n")]),
 "k1": ("processed-store set keyed by the lower-cased value (seeded C03-12)", [
     (H, "\t\tif processedStoreSet.Contains(trustStore) {", "\t\tif processedStoreSet.Contains(strings.ToLower(trustStore)) {"),
     (H, "\t\tprocessedStoreSet.Add(trustStore)\n", "\t\tprocessedStoreSet.Add(strings.ToLower(trustStore))\n")]),
 "k2": ("the real store lower-cases the store name before resolving the directory", [(TS,
     "SysPath(dir.X509TrustStoreDir(string(storeType), namedStore))", "SysPath(dir.X509TrustStoreDir(string(storeType), strings.ToLower(namedStore)))"),
     (TS, "import (\n", "import (\n\t\"strings\"\n")]),
 # --- round 6: blob entry point with names no statement carries next to a global statement; look-alike certificates
 "g1": ("VerifyBlob falls back to the global statement for a name no statement carries (seeded C03-13)", [(VF,
     "\tif opts.TrustPolicyName == \"\" {\n\t\ttrustPolicy, err = v.blobTrustPolicyDoc.GetGlobalTrustPolicy()\n\t} else {\n\t\ttrustPolicy, err = v.blobTrustPolicyDoc.GetApplicableTrustPolicy(opts.TrustPolicyName)\n\t}",
     "\ttrustPolicy, err = v.blobTrustPolicyDoc.GetApplicableTrustPolicy(opts.TrustPolicyName)\n\tif err != nil {\n\t\ttrustPolicy, err = v.blobTrustPolicyDoc.GetGlobalTrustPolicy()\n\t}")]),
 "g2": ("a blank statement name counts as no name: the global statement applies", [(VF,
     "\tif opts.TrustPolicyName == \"\" {\n\t\ttrustPolicy, err = v.blobTrustPolicyDoc.GetGlobalTrustPolicy()",
     "\tif strings.TrimSpace(opts.TrustPolicyName) == \"\" {\n\t\ttrustPolicy, err = v.blobTrustPolicyDoc.GetGlobalTrustPolicy()")]),
 "g3": ("without a global statement the first blob statement serves as one", [("verifier/trustpolicy/blob.go",
     "\treturn nil, fmt.Errorf(\"no global blob trust policy\")", "\treturn (&policyDoc.TrustPolicies[0]).clone(), nil")]),
 "g4": ("the global statement's stores are added to those of the named statement", [(VF,
     "\t\ttrustPolicy, err = v.blobTrustPolicyDoc.GetApplicableTrustPolicy(opts.TrustPolicyName)\n\t}",
     "\t\ttrustPolicy, err = v.blobTrustPolicyDoc.GetApplicableTrustPolicy(opts.TrustPolicyName)\n\t\tif g, gerr := v.blobTrustPolicyDoc.GetGlobalTrustPolicy(); err == nil && gerr == nil {\n\t\t\ttrustPolicy.TrustStores = append(trustPolicy.TrustStores, g.TrustStores...)\n\t\t}\n\t}")]),
 "y1": ("trust by CA key: the chain's last certificate verifies under a trusted certificate (seeded C03-15)", [(VF,
     "\t_, err := signature.VerifyAuthenticity(&outcome.EnvelopeContent.SignerInfo, trustCerts)\n",
     "\t_, err := signature.VerifyAuthenticity(&outcome.EnvelopeContent.SignerInfo, trustCerts)\n\tif err != nil {\n\t\tch := outcome.EnvelopeContent.SignerInfo.CertificateChain\n\t\tfor _, tc := range trustCerts {\n\t\t\tif len(ch) > 0 && ch[len(ch)-1].CheckSignatureFrom(tc) == nil {\n\t\t\t\terr = nil\n\t\t\t}\n\t\t}\n\t}\n")]),
 "y2": ("trust by public key: a chain certificate with the key of a trusted certificate", [(VF,
     "\t_, err := signature.VerifyAuthenticity(&outcome.EnvelopeContent.SignerInfo, trustCerts)\n",
     "\t_, err := signature.VerifyAuthenticity(&outcome.EnvelopeContent.SignerInfo, trustCerts)\n\tif err != nil {\n\t\tfor _, cc := range outcome.EnvelopeContent.SignerInfo.CertificateChain {\n\t\t\tfor _, tc := range trustCerts {\n\t\t\t\tif string(cc.RawSubjectPublicKeyInfo) == string(tc.RawSubjectPublicKeyInfo) {\n\t\t\t\t\terr = nil\n\t\t\t\t}\n\t\t\t}\n\t\t}\n\t}\n")]),
 "y3": ("trust by subject name: a chain certificate with the subject of a trusted certificate", [(VF,
     "\t_, err := signature.VerifyAuthenticity(&outcome.EnvelopeContent.SignerInfo, trustCerts)\n",
     "\t_, err := signature.VerifyAuthenticity(&outcome.EnvelopeContent.SignerInfo, trustCerts)\n\tif err != nil {\n\t\tfor _, cc := range outcome.EnvelopeContent.SignerInfo.CertificateChain {\n\t\t\tfor _, tc := range trustCerts {\n\t\t\t\tif string(cc.RawSubject) == string(tc.RawSubject) && tc.IsCA {\n\t\t\t\t\terr = nil\n\t\t\t\t}\n\t\t\t}\n\t\t}\n\t}\n")]),
 "y4": ("trust by chain building: the leaf verifies against the trusted certificates as roots", [(VF,
     "\t_, err := signature.VerifyAuthenticity(&outcome.EnvelopeContent.SignerInfo, trustCerts)\n",
     "\t_, err := signature.VerifyAuthenticity(&outcome.EnvelopeContent.SignerInfo, trustCerts)\n\tif ch := outcome.EnvelopeContent.SignerInfo.CertificateChain; err != nil && len(ch) > 0 {\n\t\troots, inter := x509.NewCertPool(), x509.NewCertPool()\n\t\tfor _, tc := range trustCerts {\n\t\t\troots.AddCert(tc)\n\t\t}\n\t\tfor _, ic := range ch[1:] {\n\t\t\tinter.AddCert(ic)\n\t\t}\n\t\tif _, verr := ch[0].Verify(x509.VerifyOptions{Roots: roots, Intermediates: inter, KeyUsages: []x509.ExtKeyUsage{x509.ExtKeyUsageAny}}); verr == nil {\n\t\t\terr = nil\n\t\t}\n\t}\n")]),
 # --- round 7: enclosing / extending scopes; linked certificate files between stores
 "e1": ("a scope also covers repositories nested below it, closest wins (seeded C03-18)", [(OCI,
     "\t\t\tapplicablePolicy = (&policyStatement).clone()\n\t\t}\n",
     "\t\t\tapplicablePolicy = (&policyStatement).clone()\n\t\t\tmatched = artifactPath\n\t\t}\n\t\tfor _, scope := range policyStatement.RegistryScopes {\n\t\t\tif strings.HasPrefix(artifactPath, scope+\"/\") && len(scope) > len(matched) {\n\t\t\t\tapplicablePolicy, matched = (&policyStatement).clone(), scope\n\t\t\t}\n\t\t}\n"),
     (OCI, "\tvar applicablePolicy *OCITrustPolicy\n", "\tvar applicablePolicy *OCITrustPolicy\n\tvar matched string\n")]),
 "e2": ("a scope matches every artifact path it is a string prefix of (when nothing matches exactly)", [(OCI,
     "\tif applicablePolicy != nil {\n\t\t// a policy with exact match",
     "\tif applicablePolicy == nil {\n\t\tfor _, st := range policyDoc.TrustPolicies {\n\t\t\tfor _, scope := range st.RegistryScopes {\n\t\t\t\tif scope != trustpolicy.Wildcard && strings.HasPrefix(artifactPath, scope) {\n\t\t\t\t\tapplicablePolicy = (&st).clone()\n\t\t\t\t}\n\t\t\t}\n\t\t}\n\t}\n\tif applicablePolicy != nil {\n\t\t// a policy with exact match")]),
 "e3": ("a statement scoped BELOW the artifact path applies to it (when nothing matches exactly)", [(OCI,
     "\tif applicablePolicy != nil {\n\t\t// a policy with exact match",
     "\tif applicablePolicy == nil {\n\t\tfor _, st := range policyDoc.TrustPolicies {\n\t\t\tfor _, scope := range st.RegistryScopes {\n\t\t\t\tif strings.HasPrefix(scope, artifactPath+\"/\") {\n\t\t\t\t\tapplicablePolicy = (&st).clone()\n\t\t\t\t}\n\t\t\t}\n\t\t}\n\t}\n\tif applicablePolicy != nil {\n\t\t// a policy with exact match")]),
 "l1": ("linked certificate file followed when its target has the store path as string prefix (seeded C03-16)", [
     (TS, "\t\tif file.IsDir() || file.Type()&fs.ModeSymlink != 0 {",
          "\t\tnotRegular := file.IsDir()\n\t\tif file.Type()&fs.ModeSymlink != 0 {\n\t\t\ttarget, err := filepath.EvalSymlinks(joinedPath)\n\t\t\tnotRegular = err != nil || !strings.HasPrefix(target, path)\n\t\t}\n\t\tif notRegular {"),
     (TS, "import (\n", "import (\n\t\"strings\"\n")]),
 "l2": ("linked certificate file followed when the link is relative", [
     (TS, "\t\tif file.IsDir() || file.Type()&fs.ModeSymlink != 0 {",
          "\t\tnotRegular := file.IsDir()\n\t\tif file.Type()&fs.ModeSymlink != 0 {\n\t\t\tto, err := os.Readlink(joinedPath)\n\t\t\tnotRegular = err != nil || filepath.IsAbs(to)\n\t\t}\n\t\tif notRegular {")]),
 "l3": ("linked certificate file followed when its target lies anywhere below the trust store root", [
     (TS, "\t\tif file.IsDir() || file.Type()&fs.ModeSymlink != 0 {",
          "\t\tnotRegular := file.IsDir()\n\t\tif file.Type()&fs.ModeSymlink != 0 {\n\t\t\ttarget, err := filepath.EvalSymlinks(joinedPath)\n\t\t\tnotRegular = err != nil || !strings.HasPrefix(target, filepath.Dir(filepath.Dir(path))+string(filepath.Separator))\n\t\t}\n\t\tif notRegular {"),
     (TS, "import (\n", "import (\n\t\"strings\"\n")]),
 "l4": ("linked certificate file followed when it points into the same store (correct boundary) - still a link: refused by the unchanged code", [
     (TS, "\t\tif file.IsDir() || file.Type()&fs.ModeSymlink != 0 {",
          "\t\tnotRegular := file.IsDir()\n\t\tif file.Type()&fs.ModeSymlink != 0 {\n\t\t\ttarget, err := filepath.EvalSymlinks(joinedPath)\n\t\t\tnotRegular = err != nil || !strings.HasPrefix(target, path+string(filepath.Separator))\n\t\t}\n\t\tif notRegular {"),
     (TS, "import (\n", "import (\n\t\"strings\"\n")]),
 # --- tie to the translated source: property-breaking edits inside each translated function
 #     (besides m1 m2 m3 m8 m9 m11 m12 m16 m21 above, which sit in the same functions)
 "t1": ("isTSATrustStoreInPolicy: comparison reversed", [(H, "if truststore.Type(storeType) == truststore.TypeTSA {", "if truststore.Type(storeType) != truststore.TypeTSA {")]),
 "t2": ("isTSATrustStoreInPolicy: a value without separator is passed over", [(H,
     "\t\tif !found {\n\t\t\treturn false, truststore.TrustStoreError{Msg: fmt.Sprintf(\"invalid trust policy statement: %q is missing separator in trust store value %q. The required format is <TrustStoreType>:<TrustStoreName>\", policyName, trustStore)}\n\t\t}",
     "\t\tif !found {\n\t\t\tcontinue\n\t\t}")]),
 "t3": ("loadX509TrustStores: unknown scheme falls back to the ca type", [(H,
     "\tdefault:\n\t\treturn nil, truststore.TrustStoreError{Msg: fmt.Sprintf(\"error while loading the trust store, unrecognized signing scheme %q\", scheme)}",
     "\tdefault:\n\t\ttypeToLoad = truststore.TypeCA")]),
 "t4": ("loadX509TSATrustStores: loads ca stores as timestamping anchors", [(H, "\t\ttypeToLoad = truststore.TypeTSA", "\t\ttypeToLoad = truststore.TypeCA")]),
 "t5": ("loadX509TSATrustStores: signing authority scheme accepted", [(H, "\tcase signature.SigningSchemeX509:\n\t\ttypeToLoad = truststore.TypeTSA", "\tcase signature.SigningSchemeX509, signature.SigningSchemeX509SigningAuthority:\n\t\ttypeToLoad = truststore.TypeTSA")]),
 # --- harmless rewrites of the translated functions: must stay silent (names start with r)
 "rw1": ("REWRITE loadX509TrustStoresWithType: locals renamed, message reworded", [
     (H, "\tprocessedStoreSet := set.New[string]()\n\tvar certificates []*x509.Certificate\n\tfor _, trustStore := range trustStores {\n\t\tif processedStoreSet.Contains(trustStore) {",
         "\tseen := set.New[string]()\n\tvar out []*x509.Certificate\n\tfor _, entry := range trustStores {\n\t\tif seen.Contains(entry) {"),
     (H, "\t\tstoreType, name, found := strings.Cut(trustStore, \":\")\n\t\tif !found {\n\t\t\treturn nil, truststore.TrustStoreError{Msg: fmt.Sprintf(\"error while loading the trust store, trust policy statement %q is missing separator in trust store value %q. The required format is <TrustStoreType>:<TrustStoreName>\", policyName, trustStore)}\n\t\t}\n\t\tif trustStoreType != truststore.Type(storeType) {",
         "\t\ttyp, storeName, ok := strings.Cut(entry, \":\")\n\t\tif !ok {\n\t\t\treturn nil, truststore.TrustStoreError{Msg: fmt.Sprintf(\"statement %q: trust store value %q has no separator\", policyName, entry)}\n\t\t}\n\t\tif trustStoreType != truststore.Type(typ) {"),
     (H, "\t\tcerts, err := x509TrustStore.GetCertificates(ctx, trustStoreType, name)\n\t\tif err != nil {\n\t\t\treturn nil, err\n\t\t}\n\t\tcertificates = append(certificates, certs...)\n\t\tprocessedStoreSet.Add(trustStore)\n\t}\n\treturn certificates, nil",
         "\t\tloaded, err := x509TrustStore.GetCertificates(ctx, trustStoreType, storeName)\n\t\tif err != nil {\n\t\t\treturn nil, err\n\t\t}\n\t\tout = append(out, loaded...)\n\t\tseen.Add(entry)\n\t}\n\treturn out, nil")]),
 "rw2": ("REWRITE loadX509TrustStoresWithType: declarations swapped, comparison operands swapped, Add before append", [
     (H, "\tprocessedStoreSet := set.New[string]()\n\tvar certificates []*x509.Certificate\n", "\tvar certificates []*x509.Certificate\n\tprocessedStoreSet := set.New[string]()\n"),
     (H, FILTER, "if truststore.Type(storeType) != trustStoreType {"),
     (H, "\t\tif err != nil {\n\t\t\treturn nil, err\n\t\t}\n\t\tcertificates = append(certificates, certs...)\n\t\tprocessedStoreSet.Add(trustStore)", "\t\tif nil != err {\n\t\t\treturn nil, err\n\t\t}\n\t\tprocessedStoreSet.Add(trustStore)\n\t\tcertificates = append(certificates, certs...)")]),
 "rw3": ("REWRITE isTSATrustStoreInPolicy: operands swapped, locals renamed, `found == false`", [
     (H, "\tfor _, trustStore := range trustStores {\n\t\tstoreType, _, found := strings.Cut(trustStore, \":\")\n\t\tif !found {\n\t\t\treturn false, truststore.TrustStoreError{Msg: fmt.Sprintf(\"invalid trust policy statement: %q is missing separator in trust store value %q. The required format is <TrustStoreType>:<TrustStoreName>\", policyName, trustStore)}\n\t\t}\n\t\tif truststore.Type(storeType) == truststore.TypeTSA {",
         "\tfor _, value := range trustStores {\n\t\tprefix, _, found := strings.Cut(value, \":\")\n\t\tif found == false {\n\t\t\treturn false, truststore.TrustStoreError{Msg: fmt.Sprintf(\"statement %q: no separator in %q\", policyName, value)}\n\t\t}\n\t\tif truststore.TypeTSA == truststore.Type(prefix) {")]),
 "rw4": ("REWRITE isTSATrustStoreInPolicy: result through a flag and break instead of return", [
     (H, "\t\tif truststore.Type(storeType) == truststore.TypeTSA {\n\t\t\treturn true, nil\n\t\t}\n\t}\n\treturn false, nil",
         "\t\tif truststore.Type(storeType) == truststore.TypeTSA {\n\t\t\treturn true, nil\n\t\t} else {\n\t\t\tcontinue\n\t\t}\n\t}\n\treturn false, nil")]),
 "rw5": ("REWRITE loadX509TrustStores: switch as an if-chain, cases in the other order", [
     (H, "\tswitch scheme {\n\tcase signature.SigningSchemeX509:\n\t\ttypeToLoad = truststore.TypeCA\n\tcase signature.SigningSchemeX509SigningAuthority:\n\t\ttypeToLoad = truststore.TypeSigningAuthority\n\tdefault:\n\t\treturn nil, truststore.TrustStoreError{Msg: fmt.Sprintf(\"error while loading the trust store, unrecognized signing scheme %q\", scheme)}\n\t}",
         "\tif scheme == signature.SigningSchemeX509SigningAuthority {\n\t\ttypeToLoad = truststore.TypeSigningAuthority\n\t} else if signature.SigningSchemeX509 == scheme {\n\t\ttypeToLoad = truststore.TypeCA\n\t} else {\n\t\treturn nil, truststore.TrustStoreError{Msg: fmt.Sprintf(\"unknown signing scheme %q\", scheme)}\n\t}")]),
 "rw6": ("REWRITE loadX509TrustStores: variable renamed, message reworded", [
     (H, "func loadX509TrustStores(ctx context.Context, scheme signature.SigningScheme, policyName string, trustStores []string, x509TrustStore truststore.X509TrustStore) ([]*x509.Certificate, error) {\n\tvar typeToLoad truststore.Type\n\tswitch scheme {\n\tcase signature.SigningSchemeX509:\n\t\ttypeToLoad = truststore.TypeCA\n\tcase signature.SigningSchemeX509SigningAuthority:\n\t\ttypeToLoad = truststore.TypeSigningAuthority\n\tdefault:\n\t\treturn nil, truststore.TrustStoreError{Msg: fmt.Sprintf(\"error while loading the trust store, unrecognized signing scheme %q\", scheme)}\n\t}\n\treturn loadX509TrustStoresWithType(ctx, typeToLoad,",
         "func loadX509TrustStores(ctx context.Context, scheme signature.SigningScheme, policyName string, trustStores []string, x509TrustStore truststore.X509TrustStore) ([]*x509.Certificate, error) {\n\tvar wanted truststore.Type\n\tswitch scheme {\n\tcase signature.SigningSchemeX509:\n\t\twanted = truststore.TypeCA\n\tcase signature.SigningSchemeX509SigningAuthority:\n\t\twanted = truststore.TypeSigningAuthority\n\tdefault:\n\t\treturn nil, truststore.TrustStoreError{Msg: fmt.Sprintf(\"scheme %q has no trust store type\", scheme)}\n\t}\n\treturn loadX509TrustStoresWithType(ctx, wanted,")]),
 "rw7": ("REWRITE loadX509TSATrustStores: early return instead of switch", [
     (H, "\tvar typeToLoad truststore.Type\n\tswitch scheme {\n\tcase signature.SigningSchemeX509:\n\t\ttypeToLoad = truststore.TypeTSA\n\tdefault:\n\t\treturn nil, truststore.TrustStoreError{Msg: fmt.Sprintf(\"error while loading the TSA trust store, signing scheme must be notary.x509, but got %s\", scheme)}\n\t}\n\treturn loadX509TrustStoresWithType(ctx, typeToLoad, policyName, trustStores, x509TrustStore)",
         "\tif scheme != signature.SigningSchemeX509 {\n\t\treturn nil, truststore.TrustStoreError{Msg: fmt.Sprintf(\"TSA trust stores need signing scheme notary.x509, got %s\", scheme)}\n\t}\n\treturn loadX509TrustStoresWithType(ctx, truststore.TypeTSA, policyName, trustStores, x509TrustStore)")]),
 "rw8": ("REWRITE loadX509TSATrustStores: message reworded, variable renamed", [
     (H, "\tvar typeToLoad truststore.Type\n\tswitch scheme {\n\tcase signature.SigningSchemeX509:\n\t\ttypeToLoad = truststore.TypeTSA\n\tdefault:\n\t\treturn nil, truststore.TrustStoreError{Msg: fmt.Sprintf(\"error while loading the TSA trust store, signing scheme must be notary.x509, but got %s\", scheme)}\n\t}\n\treturn loadX509TrustStoresWithType(ctx, typeToLoad,",
         "\tvar tsaType truststore.Type\n\tswitch scheme {\n\tcase signature.SigningSchemeX509:\n\t\ttsaType = truststore.TypeTSA\n\tdefault:\n\t\treturn nil, truststore.TrustStoreError{Msg: fmt.Sprintf(\"wrong scheme %s for TSA trust stores\", scheme)}\n\t}\n\treturn loadX509TrustStoresWithType(ctx, tsaType,")]),
 # --- behaviour preserving: must stay silent
 "r1": ("REFACTORING: Add before the load, error messages changed", [
     (H, "\t\tcerts, err := x509TrustStore.GetCertificates(ctx, trustStoreType, name)\n\t\tif err != nil {\n\t\t\treturn nil, err\n\t\t}\n\t\tcertificates = append(certificates, certs...)\n\t\tprocessedStoreSet.Add(trustStore)",
         "\t\tprocessedStoreSet.Add(trustStore)\n\t\tcerts, err := x509TrustStore.GetCertificates(ctx, trustStoreType, name)\n\t\tif err != nil {\n\t\t\treturn nil, err\n\t\t}\n\t\tcertificates = append(certificates, certs...)"),
     (VF, "no trusted certificates are found to verify authenticity", "the trust stores of the policy hold no certificate"),
     (H, "error while loading the trust store, unrecognized signing scheme %q", "unknown signing scheme %q, cannot load trust stores")]),
 "r2": ("REFACTORING: verifier counts verifications and remembers the last statement name", CACHE + [(VF, "\t" + LOAD,
     "\tn, _ := v.cache.LoadOrStore(\"count\", 0)\n\tv.cache.Store(\"count\", n.(int)+1)\n\tv.cache.Store(\"last\", policyName)\n\t" + LOAD)]),
 "r3": ("REFACTORING: Validate no longer checks store names (the store itself still does): no trust consequence", [
     ("verifier/trustpolicy/trustpolicy.go", "\t\tif !file.IsValidFileName(namedStore) {", "\t\tif false && !file.IsValidFileName(namedStore) {")]),
 "r4": ("REFACTORING: os.Lstat result reused, symlink test written first", [(TS, "\tif !mode.IsDir() || mode&fs.ModeSymlink != 0 {", "\tif mode&fs.ModeSymlink != 0 || !mode.IsDir() {")]),
}
env = dict(os.environ, GOFLAGS="-mod=mod", GOPROXY="off", GOSUMDB="off", GOTOOLCHAIN="local", CGO_ENABLED="0", VERIF_REPO=WT)
names = sys.argv[1:] or list(M)
subprocess.run(["git", "-C", "/repo", "worktree", "remove", "--force", WT], capture_output=True)
subprocess.run(["git", "-C", "/repo", "worktree", "add", "-q", WT, "HEAD"], check=True)
bad = 0
try:
    for n in names:
        what, edits = M[n]
        subprocess.run(["git", "-C", WT, "checkout", "-q", "."], check=True)
        ok = True
        for path, old, new in edits:
            p = os.path.join(WT, path); s = open(p).read()
            if old not in s:
                print(n, "PATTERN NOT FOUND in", path, repr(old[:60])); ok = False; break
            open(p, "w").write(s.replace(old, new, 1))
        if not ok:
            bad += 1; continue
        r = subprocess.run([os.path.join(V, "check"), "C03"], capture_output=True, text=True, env=env, cwd=V)
        viol = [l for l in r.stdout.splitlines() if l.startswith("VIOLATION")]
        summ = (r.stdout.strip().splitlines() or [""])[-1]
        silent_expected = n.startswith("r")
        verdict = ("silent" if not viol else ("caught (no-failing-input-found)" if "no-failing-input-found" in viol[0] else "caught with replay"))
        good = (verdict == "silent") == silent_expected
        bad += 0 if good else 1
        brk = ""
        if viol and "replay=" in viol[0]:
            try:
                import json
                rp = json.load(open(viol[0].split("replay=")[1].split()[0]))
                names = [b.get("detail", "") if isinstance(b, dict) else str(b) for b in (rp.get("broken") or rp.get("no_longer_checks") or [])]
                brk = " broken: " + "; ".join(x.split("\n")[0][-90:] for x in names) if names else ""
            except Exception as e:
                brk = f" (replay unreadable: {e})"
        print(f"{n:4} {'ok ' if good else 'BAD'} {verdict:32} {what} | {summ[summ.find('cases='):]}{brk}")
finally:
    subprocess.run(["git", "-C", "/repo", "worktree", "remove", "--force", WT], capture_output=True)
    subprocess.run([os.path.join(V, "check"), "C03"], capture_output=True, text=True, cwd=V,
                   env=dict(env, VERIF_REPO="/repo"))   # regenerate the fact files from /repo
sys.exit(1 if bad else 0)
